"""Compare a nextest junit.xml with BASELINE.json's stable_pass list."""
import json
import sys
import xml.etree.ElementTree as ET

base = json.load(open("/root/.vp/BASELINE.json"))
stable = set(base["stable_pass"])
root = ET.parse(sys.argv[1]).getroot()
passed, failed = set(), set()
for suite in root.iter("testsuite"):
    sname = suite.get("name")
    for tc in suite.iter("testcase"):
        # BASELINE ids look like "<package>::<binary-or-empty>::<test path>"
        name = tc.get("name")
        cls = tc.get("classname") or sname
        ids = {f"{cls}::{name}", f"{sname}::{name}"}
        pkg = cls.split("::")[0]
        ids.add(f"{pkg}::{name}")
        bad = any(ch.tag in ("failure", "error") for ch in tc)
        (failed if bad else passed).update(ids)
missing = sorted(t for t in stable if t not in passed)
print(f"stable_pass={len(stable)} passed_of_stable={len(stable) - len(missing)} failed_or_missing={len(missing)}")
for t in missing[:50]:
    print("  NOT PASSED:", t, "(failed)" if t in failed else "(not run)")
sys.exit(0 if not missing else 1)
