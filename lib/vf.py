"""Shared machinery for the /verif checks: TLC runner, TLC<->JSON bridge, cargo/harness
runner, known-finding classifier, evidence writer.

Exit-code contract (see DESIGN.md section 2):
  0  property held on everything explored (KNOWN-FINDING lines allowed)
  1  a violation that known_findings.json does not list; a line
     "VIOLATION property=<id> replay=<path>" has been printed
  2  tool error / timeout (never accompanied by a VIOLATION line)
"""
import fcntl
import json
import os
import re
import shutil
import subprocess
import sys
import time

ROOT = os.path.dirname(os.path.dirname(os.path.abspath(__file__)))
REPO = os.environ.get("VERIF_REPO", "/repo")
SPEC = os.path.join(ROOT, "spec")
WORK = os.path.join(ROOT, "work")
EVID = os.path.join(ROOT, "evidence")
REPLAYS = os.path.join(ROOT, "replays")
FEATURES = ("astria-sequencer/verif,astria-conductor/verif,"
            "astria-sequencer-relayer/verif,astria-composer/verif")
TLA_CP = "/opt/veriftools/tla/tla2tools.jar:/opt/veriftools/tla/CommunityModules-deps.jar"


class ToolError(Exception):
    pass


def log(*a):
    print(*a, flush=True)


def workdir(*parts, clean=False):
    d = os.path.join(WORK, *parts)
    if clean and os.path.isdir(d):
        shutil.rmtree(d)
    os.makedirs(d, exist_ok=True)
    return d


# --------------------------------------------------------------------------------------
# TLC
# --------------------------------------------------------------------------------------
class TLCResult:
    def __init__(self):
        self.rc = None
        self.out = ""
        self.generated = 0
        self.distinct = 0
        self.depth = 0
        self.violation = None      # name of violated invariant/property or "deadlock"
        self.trace = []            # raw text of the error trace states
        self.tlines = []           # decoded JSON payloads of <<"T", "...">> lines
        self.coverage = {}         # action name -> (distinct, generated)
        self.wall = 0.0
        self.cmd = ""

    @property
    def ok(self):
        return self.rc == 0 and self.violation is None


_T_RE = re.compile(r'^<<"([A-Z]+)", "(.*)">>\s*$')


def _unescape_tla(s):
    # TLC prints strings with \" and \\ escapes
    out = []
    i = 0
    while i < len(s):
        c = s[i]
        if c == "\\" and i + 1 < len(s):
            n = s[i + 1]
            if n == "n":
                out.append("\n")
            elif n == "t":
                out.append("\t")
            else:
                out.append(n)
            i += 2
        else:
            out.append(c)
            i += 1
    return "".join(out)


def parse_tlines(text, tag="T"):
    res = []
    for line in text.splitlines():
        m = _T_RE.match(line)
        if m and m.group(1) == tag:
            try:
                res.append(json.loads(_unescape_tla(m.group(2))))
            except json.JSONDecodeError as e:
                raise ToolError(f"cannot decode TLC {tag} line: {e}: {line[:200]}")
    return res


_COV_RE = re.compile(r"^<(\w+) line \d+, col \d+ to line \d+, col \d+ of module (\w+)(?: \([\d ]+\))?>: (\d+):(\d+)")


def run_tlc(spec, cfg, *, tag, workers=8, simulate=None, depth=None, seed=None, env=None,
            timeout=900, xmx="8g", xss=None, deque=False, coverage=True, extra=(), dfid=None,
            collect_tags=("T",), keep_out=False, small=False):
    """Run TLC on spec (path relative to SPEC) with cfg; returns TLCResult.

    tag names the scratch dir under work/. Raises ToolError on timeouts and on TLC
    errors that are not property violations (parse errors, evaluation errors...)."""
    spec_path = spec if os.path.isabs(spec) else os.path.join(SPEC, spec)
    cfg_path = cfg if os.path.isabs(cfg) else os.path.join(SPEC, cfg)
    meta = workdir("tlc", tag, clean=True)
    # small: a run of a few hundred states (trace validation): start-up time is all that matters
    jopts = ["-XX:+UseSerialGC", "-XX:TieredStopAtLevel=1", f"-Xmx{xmx}"] if small else ["-XX:+UseParallelGC", f"-Xmx{xmx}"]
    if xss:
        jopts.append(f"-Xss{xss}")
    if deque:
        jopts.append("-Dtlc2.tool.queue.IStateQueue=StateDeque")
    cmd = ["java"] + jopts + ["-cp", TLA_CP, "tlc2.TLC", "-metadir", meta, "-cleanup",
                              "-noGenerateSpecTE", "-workers", str(workers), "-config", cfg_path]
    if coverage and simulate is None:
        cmd += ["-coverage", "1"]
    if simulate is not None:
        cmd += ["-simulate", f"num={simulate}"]
    if depth is not None:
        cmd += ["-depth", str(depth)]
    if dfid is not None:
        cmd += ["-dfid", str(dfid)]
    if seed is not None:
        cmd += ["-seed", str(seed)]
    cmd += list(extra) + [spec_path]
    e = dict(os.environ)
    e.pop("JAVA_TOOL_OPTIONS", None)
    if env:
        e.update({k: str(v) for k, v in env.items()})
    r = TLCResult()
    r.cmd = " ".join(cmd)
    t0 = time.time()
    try:
        p = subprocess.run(cmd, cwd=os.path.dirname(spec_path), env=e, stdout=subprocess.PIPE,
                           stderr=subprocess.STDOUT, timeout=timeout, text=True, errors="replace")
    except subprocess.TimeoutExpired:
        raise ToolError(f"TLC timed out after {timeout}s: {r.cmd}")
    r.wall = time.time() - t0
    r.rc = p.returncode
    out = p.stdout
    r.out = out
    for m in re.finditer(r"(\d+) states generated, (\d+) distinct states found", out):
        r.generated, r.distinct = int(m.group(1)), int(m.group(2))
    m = re.search(r"The depth of the complete state graph search is (\d+)", out)
    if m:
        r.depth = int(m.group(1))
    m = re.search(r"Error: Invariant (\S+) is violated", out)
    if m:
        r.violation = m.group(1).rstrip(".")
    m = re.search(r"Error: Action property (\S+) is violated", out)
    if m:
        r.violation = m.group(1).rstrip(".")
    if "Error: Deadlock reached" in out:
        r.violation = "deadlock"
    if "Temporal properties were violated" in out:
        r.violation = r.violation or "temporal"
    if r.violation:
        i = out.find("Error: ")
        r.trace = out[i:i + 20000]
    for line in out.splitlines():
        m = _COV_RE.match(line)
        if m:
            name = m.group(1)
            d, g = int(m.group(3)), int(m.group(4))
            od, og = r.coverage.get(name, (0, 0))
            r.coverage[name] = (max(od, d), max(og, g))
    for t in collect_tags:
        if t == "T":
            r.tlines = parse_tlines(out, "T")
    if not keep_out:
        # keep a copy for debugging
        with open(os.path.join(workdir("tlc"), tag + ".out"), "w") as f:
            f.write(out)
    shutil.rmtree(meta, ignore_errors=True)
    if r.rc != 0 and r.violation is None:
        tail = "\n".join(out.splitlines()[-40:])
        raise ToolError(f"TLC failed (rc={r.rc}) on {spec} / {cfg}:\n{tail}")
    return r


def sany(spec):
    spec_path = spec if os.path.isabs(spec) else os.path.join(SPEC, spec)
    p = subprocess.run(["java", "-cp", TLA_CP, "tla2sany.SANY", spec_path], cwd=os.path.dirname(spec_path),
                       stdout=subprocess.PIPE, stderr=subprocess.STDOUT, text=True)
    if p.returncode != 0 or "Semantic errors" in p.stdout or "*** Errors" in p.stdout or "Fatal errors" in p.stdout:
        raise ToolError(f"SANY rejects {spec}:\n{p.stdout[-3000:]}")
    return True


def require_coverage(r, actions):
    """Refuse vacuous runs: each named action must have produced at least one state."""
    def taken(a):
        alts = a if isinstance(a, (tuple, list)) else (a,)
        return any(r.coverage.get(x, (0, 0))[1] > 0 for x in alts)
    missing = [a for a in actions if not taken(a)]
    if missing:
        raise ToolError(f"vacuous TLC run: actions never taken: {missing}")


# --------------------------------------------------------------------------------------
# cargo / harness
# --------------------------------------------------------------------------------------
_BINS = None


def cargo_env():
    e = dict(os.environ)
    e["CARGO_NET_OFFLINE"] = "true"
    e.pop("RUSTFLAGS", None)
    return e


def build_bins(quiet=True):
    """Build the lib test binaries of the whole workspace with the verif features on,
    from /repo's current working tree; returns {package name: executable}."""
    global _BINS
    if _BINS is not None:
        return _BINS
    os.makedirs(WORK, exist_ok=True)
    lockf = open(os.path.join(WORK, ".cargo.lock"), "w")
    fcntl.flock(lockf, fcntl.LOCK_EX)
    try:
        cmd = ["cargo", "test", "--workspace", "--features", FEATURES, "--lib", "--no-run", "--offline",
               "--message-format=json"]
        t0 = time.time()
        p = subprocess.run(cmd, cwd=REPO, env=cargo_env(), stdout=subprocess.PIPE, stderr=subprocess.PIPE, text=True)
        if p.returncode != 0:
            msgs = []
            for line in p.stdout.splitlines():
                try:
                    j = json.loads(line)
                except json.JSONDecodeError:
                    continue
                if j.get("reason") == "compiler-message" and j["message"].get("level") == "error":
                    msgs.append(j["message"].get("rendered", ""))
            raise ToolError("cargo build failed:\n" + "\n".join(msgs[-10:]) + p.stderr[-3000:])
        bins = {}
        for line in p.stdout.splitlines():
            try:
                j = json.loads(line)
            except json.JSONDecodeError:
                continue
            if j.get("reason") == "compiler-artifact" and j.get("executable") and j["profile"].get("test"):
                name = j["package_id"]
                m = re.search(r"/crates/([\w-]+)#", name) or re.search(r"#([\w-]+)@", name)
                pkg = j["target"]["name"].replace("_", "-")
                bins[pkg] = j["executable"]
        if not quiet:
            log(f"[cargo] built lib test binaries in {time.time() - t0:.1f}s")
        _BINS = bins
        return bins
    finally:
        fcntl.flock(lockf, fcntl.LOCK_UN)
        lockf.close()


def build_ext(crate_dir, bin_name):
    """Build a stand-alone harness crate under /verif/harness (path-depends on /repo)."""
    os.makedirs(WORK, exist_ok=True)
    lock_src = os.path.join(REPO, "Cargo.lock")
    lock_dst = os.path.join(crate_dir, "Cargo.lock")
    if not os.path.exists(lock_dst):
        shutil.copy(lock_src, lock_dst)
    p = subprocess.run(["cargo", "build", "--offline", "--release"], cwd=crate_dir, env=cargo_env(),
                       stdout=subprocess.PIPE, stderr=subprocess.STDOUT, text=True)
    if p.returncode != 0:
        raise ToolError(f"cargo build of {crate_dir} failed:\n{p.stdout[-4000:]}")
    exe = os.path.join(crate_dir, "target", "release", bin_name)
    if not os.path.exists(exe):
        raise ToolError(f"missing {exe}")
    return exe


def run_harness(pkg, test, *, inp=None, out=None, env=None, timeout=1800, args=()):
    """Run one #[test] entry of an in-crate harness. Returns (rc, stdout+stderr)."""
    bins = build_bins()
    if pkg not in bins:
        raise ToolError(f"no test binary for {pkg}: have {sorted(bins)}")
    e = cargo_env()
    e["RUST_BACKTRACE"] = "0"
    if inp:
        e["VERIF_IN"] = inp
    if out:
        e["VERIF_OUT"] = out
        if os.path.exists(out):
            os.remove(out)
    if env:
        e.update({k: str(v) for k, v in env.items()})
    cmd = [bins[pkg], "--exact", test, "--nocapture", "--test-threads", "1"] + list(args)
    crate_dir = os.path.join(REPO, "crates", pkg)
    try:
        p = subprocess.run(cmd, cwd=crate_dir, env=e, stdout=subprocess.PIPE, stderr=subprocess.STDOUT, text=True,
                           errors="replace", timeout=timeout)
    except subprocess.TimeoutExpired:
        raise ToolError(f"harness {pkg}::{test} timed out after {timeout}s")
    if "running 0 tests" in p.stdout or "0 passed; 0 failed" in p.stdout and "1 filtered" in p.stdout:
        if "test result: ok. 0 passed" in p.stdout:
            raise ToolError(f"harness entry {test} not found in {pkg}")
    return p.returncode, p.stdout


def run_harness_sharded(pkg, test, cases, *, tag, shards=8, env=None, timeout=1800):
    """Run an in-crate harness #[test] entry over cases, sharded over processes."""
    bins = build_bins()
    if pkg not in bins:
        raise ToolError(f"no test binary for {pkg}: have {sorted(bins)}")
    cmd = [bins[pkg], "--exact", test, "--nocapture", "--test-threads", "1"]
    return run_cases(cmd, os.path.join(REPO, "crates", pkg), cases, tag=tag, shards=shards, env=env,
                     timeout=timeout, what=f"{pkg}::{test}")


def run_cases(cmd, cwd, cases, *, tag, shards=8, env=None, timeout=1800, what=None):
    """Write cases (list of JSON values) into shard files, run cmd once per shard in parallel with
    VERIF_IN / VERIF_OUT set, and return the list of result records (JSON lines written by it)."""
    what = what or cmd[0]
    d = workdir("harness", tag, clean=True)
    shards = max(1, min(shards, len(cases)))
    files = []
    for i in range(shards):
        fin = os.path.join(d, f"in{i}.ndjson")
        with open(fin, "w") as f:
            for c in cases[i::shards]:
                f.write(json.dumps(c, separators=(",", ":")) + "\n")
        files.append((fin, os.path.join(d, f"out{i}.ndjson")))
    procs = []
    for i, (fin, fout) in enumerate(files):
        e = cargo_env()
        e["RUST_BACKTRACE"] = "0"
        e["VERIF_IN"] = fin
        e["VERIF_OUT"] = fout
        e["VERIF_SHARD"] = str(i)
        if env:
            e.update({k: str(v) for k, v in env.items()})
        lf = open(fout + ".log", "w")
        procs.append((subprocess.Popen(cmd, cwd=cwd, env=e, stdout=lf, stderr=subprocess.STDOUT), fout, lf))
    results = []
    t0 = time.time()
    for p, fout, lf in procs:
        try:
            rc = p.wait(timeout=max(1, timeout - (time.time() - t0)))
        except subprocess.TimeoutExpired:
            for q, _, _ in procs:
                q.kill()
            raise ToolError(f"harness {what} timed out after {timeout}s")
        lf.close()
        logtxt = open(fout + ".log", errors="replace").read()
        if "test result: ok. 0 passed" in logtxt:
            raise ToolError(f"harness entry {what} not found")
        if not os.path.exists(fout):
            raise ToolError(f"harness {what} wrote no output (rc={rc}):\n{logtxt[-3000:]}")
        n_before = len(results)
        with open(fout) as f:
            for line in f:
                line = line.strip()
                if line:
                    results.append(json.loads(line))
        if rc != 0:
            raise ToolError(f"harness {what} exited rc={rc} after {len(results) - n_before} records:\n"
                            f"{logtxt[-3000:]}")
    return results


# --------------------------------------------------------------------------------------
# findings, evidence, verdict
# --------------------------------------------------------------------------------------
def load_known():
    p = os.path.join(ROOT, "known_findings.json")
    if not os.path.exists(p):
        return []
    return json.load(open(p))["findings"]


class Verdict:
    """Collects mismatches of one check run and turns them into the exit code."""

    def __init__(self, prop, tier, seed):
        self.prop = prop
        self.tier = tier
        self.seed = seed
        self.known_hits = {}     # finding id -> count
        self.violations = []     # (sig, case)
        self.known = [k for k in load_known() if k.get("property") == prop and k.get("status") == "known"]
        self.t0 = time.time()

    def mismatch(self, sig, case):
        """Report a divergence between implementation and specification.
        sig: stable one-line signature of the failing case."""
        for k in self.known:
            if re.fullmatch(k["signature"], sig):
                self.known_hits.setdefault(k["id"], [0, k, sig])
                self.known_hits[k["id"]][0] += 1
                return "known"
        self.violations.append((sig, case))
        return "violation"

    def finish(self, coverage, level="model_checking", assumptions=()):
        if os.environ.get("VERIF_SELFTEST"):
            # a self-test deliberately corrupts something: its alarms are not the property's, its evidence is not kept
            for fid, (n, k, sig) in sorted(self.known_hits.items()):
                log(f"[selftest] known finding {fid} x{n}")
            for sig, case in self.violations[:5]:
                log(f"[selftest] alarm raised: {sig}")
            return 1 if self.violations else 0
        os.makedirs(EVID, exist_ok=True)
        os.makedirs(REPLAYS, exist_ok=True)
        for fid, (n, k, sig) in sorted(self.known_hits.items()):
            log(f"KNOWN-FINDING: property={self.prop} {fid}: {k['description']} ({n} case(s), e.g. {sig})")
        paths = []
        for i, (sig, case) in enumerate(self.violations[:5]):
            path = os.path.join(REPLAYS, f"{self.prop}-{self.tier}-{i}.json")
            with open(path, "w") as f:
                json.dump({"property": self.prop, "signature": sig, "case": case}, f, indent=1)
            paths.append(path)
            log(f"VIOLATION property={self.prop} replay={path}")
            log(f"  signature: {sig}")
        ev = {
            "property_id": self.prop,
            "tier": self.tier,
            "seed": int(self.seed),
            "level": level,
            "coverage": coverage,
            "assumptions": list(assumptions),
            "wall_s": round(time.time() - self.t0, 2),
            "violations": len(self.violations),
        }
        ev["coverage"]["known_findings_hit"] = {fid: v[0] for fid, v in self.known_hits.items()}
        with open(os.path.join(EVID, f"{self.prop}.json"), "w") as f:
            json.dump(ev, f, indent=1)
        return 1 if self.violations else 0


def tlc_violation_case(r):
    return {"tlc_violation": r.violation, "trace": r.trace, "cmd": r.cmd}


# --------------------------------------------------------------------------------------
# from TLC transitions to replayable behaviours
# --------------------------------------------------------------------------------------
def canon(x):
    return json.dumps(x, sort_keys=True, separators=(",", ":"))


def dedupe_transitions(tlines, skey="s", tkey="t", akey="a"):
    """Distinct (s, a, t) projections of the transitions TLC explored."""
    seen = {}
    for t in tlines:
        k = (canon(t[skey]), canon(t[akey]), canon(t[tkey]))
        if k not in seen:
            seen[k] = t
    return list(seen.values())


def cover_transitions(trans, init, max_len=40, skey="s", tkey="t"):
    """Greedy transition tour: a list of behaviours (lists of transitions, each starting in `init`)
    that together contain every transition reachable from init at least once."""
    import collections
    out = collections.defaultdict(list)
    for i, t in enumerate(trans):
        out[canon(t[skey])].append(i)
    init_k = canon(init)
    unvisited = set(range(len(trans)))
    # shortest path tree from init (for restarting a behaviour at a far-away unvisited transition)
    parent = {init_k: None}
    q = collections.deque([init_k])
    while q:
        s = q.popleft()
        for i in out.get(s, ()):
            tk = canon(trans[i][tkey])
            if tk not in parent:
                parent[tk] = i
                q.append(tk)

    def path_to(sk):
        p = []
        while parent[sk] is not None:
            i = parent[sk]
            p.append(i)
            sk = canon(trans[i][skey])
        return list(reversed(p))

    unreachable = [i for i in unvisited if canon(trans[i][skey]) not in parent]
    unvisited -= set(unreachable)
    behaviours = []
    while unvisited:
        # start: nearest (any) unvisited transition, via the shortest path to its source
        i0 = min(unvisited)
        beh = path_to(canon(trans[i0][skey])) + [i0]
        unvisited.discard(i0)
        for i in beh:
            unvisited.discard(i)
        cur = canon(trans[i0][tkey])
        while len(beh) < max_len:
            nxt = next((i for i in out.get(cur, ()) if i in unvisited), None)
            if nxt is None:
                break
            beh.append(nxt)
            unvisited.discard(nxt)
            cur = canon(trans[nxt][tkey])
        behaviours.append([trans[i] for i in beh])
    return behaviours, len(unreachable)
