//! verif harness entry for composer_executor (compiled into the repo crate under cfg(all(test, feature = "verif"))).
#[test]
fn smoke() {}
