//! S->I replay harness for spec/Merkle.tla against the real `astria-merkle` crate.
//!
//! Input (VERIF_IN): one JSON case per line, as exported by TLC (`TreeRecord`, `TripleRecord`)
//! and post-processed by checks/c08.py.  Output (VERIF_OUT): one JSON result per line:
//! `{"case": <n>, "checks": <k>, "mismatches": [{"sig": ..., "detail": ...}]}`.
//!
//! Hash terms are evaluated here with SHA-256 and the RFC 6962 domain separation, independently
//! of the crate's own `hash_leaf` / `combine`.
use std::{
    io::{
        BufRead,
        Write,
    },
    panic::{
        catch_unwind,
        AssertUnwindSafe,
    },
};

use astria_merkle::{
    Proof,
    Tree,
};
use serde_json::{
    json,
    Value,
};
use sha2::{
    Digest,
    Sha256,
};

fn leaf_bytes(d: u64) -> Vec<u8> {
    if d == 0 {
        return Vec::new();
    }
    let reps = (d % 3 + 1) as usize;
    let mut v = Vec::new();
    for _ in 0..reps {
        v.extend_from_slice(format!("leaf:{d};").as_bytes());
    }
    v
}

fn eval(term: &Value) -> [u8; 32] {
    let arr = term.as_array().expect("term is an array");
    match arr[0].as_str().expect("tag") {
        "L" => {
            let mut h = Sha256::new();
            h.update([0u8]);
            h.update(leaf_bytes(arr[1].as_u64().unwrap()));
            h.finalize().into()
        }
        "N" => {
            let mut h = Sha256::new();
            h.update([1u8]);
            h.update(eval(&arr[1]));
            h.update(eval(&arr[2]));
            h.finalize().into()
        }
        "X" => Sha256::digest(b"verif: a hash that occurs nowhere in the tree").into(),
        "E" => Sha256::digest(b"").into(),
        other => panic!("unknown term tag {other}"),
    }
}

/// Runs decode + verify the way a receiver does; returns "reject" | "true" | "false" | "panic".
fn observe(path: Vec<u8>, leaf_index: usize, tree_size: usize, leaf: &[u8], root: [u8; 32]) -> &'static str {
    let r = catch_unwind(AssertUnwindSafe(|| {
        match Proof::unchecked()
            .audit_path(path)
            .leaf_index(leaf_index)
            .tree_size(tree_size)
            .try_into_proof()
        {
            Err(_) => "reject",
            Ok(p) => {
                if p.verify(leaf, root) {
                    "true"
                } else {
                    "false"
                }
            }
        }
    }));
    r.unwrap_or("panic")
}

struct Out {
    checks: u64,
    mism: Vec<Value>,
}

impl Out {
    fn expect(&mut self, what: &str, expected: &str, observed: &str, detail: Value) {
        self.checks += 1;
        if expected != observed {
            self.mism.push(json!({
                "sig": format!("merkle:{what}:expected={expected}:observed={observed}"),
                "detail": detail,
            }));
        }
    }

    fn check(&mut self, what: &str, ok: bool, detail: Value) {
        self.checks += 1;
        if !ok {
            self.mism.push(json!({"sig": format!("merkle:{what}"), "detail": detail}));
        }
    }
}

fn tree_case(c: &Value, out: &mut Out) {
    let leaves: Vec<u64> = c["leaves"].as_array().unwrap().iter().map(|v| v.as_u64().unwrap()).collect();
    let n = leaves.len();
    let size = c["size"].as_u64().unwrap() as usize;
    let built = catch_unwind(|| {
        let mut t = Tree::new();
        for d in &leaves {
            t.push(&leaf_bytes(*d));
        }
        t
    });
    let Ok(tree) = built else {
        out.check("build:panic", false, json!({"leaves": n}));
        return;
    };
    // also through the other constructor
    let tree2 = Tree::from_leaves(leaves.iter().map(|d| leaf_bytes(*d)));
    let root = eval(&c["root"]);
    out.check("root!=MTH", tree.root() == root, json!({"leaves": n}));
    out.check("from_leaves-root!=MTH", tree2.root() == root, json!({"leaves": n}));
    out.check("len", tree.len() == size, json!({"leaves": n, "len": tree.len()}));
    out.check(
        "proof-outside-tree",
        catch_unwind(AssertUnwindSafe(|| tree.construct_proof(n).is_none())).unwrap_or(false),
        json!({"leaves": n}),
    );
    let x: [u8; 32] = eval(&json!(["X"]));
    for i in 0..n {
        let lf = leaf_bytes(leaves[i]);
        let expected_path: Vec<u8> =
            c["proofs"][i].as_array().unwrap().iter().flat_map(|t| eval(t).to_vec()).collect();
        let proof = match catch_unwind(AssertUnwindSafe(|| tree.construct_proof(i))) {
            Ok(Some(p)) => p,
            Ok(None) => {
                out.check("construct_proof:none", false, json!({"leaves": n, "i": i}));
                continue;
            }
            Err(_) => {
                out.check("construct_proof:panic", false, json!({"leaves": n, "i": i}));
                continue;
            }
        };
        out.check("proof!=PATH", proof.audit_path() == expected_path.as_slice(), json!({"leaves": n, "i": i}));
        out.check(
            "proof-fields",
            proof.leaf_index() == i && proof.tree_size().get() == size && proof.len() * 32 == expected_path.len(),
            json!({"leaves": n, "i": i}),
        );
        out.check(
            "leaf-hash",
            tree.leaf(i) == Some(eval(&json!(["L", leaves[i]]))),
            json!({"leaves": n, "i": i}),
        );
        // completeness, through the decode path a receiver uses
        let det = json!({"leaves": n, "i": i});
        out.expect("complete", "true", observe(expected_path.clone(), i, size, &lf, root), det.clone());
        out.check(
            "complete-direct",
            catch_unwind(AssertUnwindSafe(|| proof.verify(&lf, root))).unwrap_or(false),
            det.clone(),
        );
        // soundness: leaf, root, each path element
        out.expect("sound:leaf", "false", observe(expected_path.clone(), i, size, b"some other leaf", root), det.clone());
        let mut lf2 = lf.clone();
        lf2.push(0);
        out.expect("sound:leaf-extended", "false", observe(expected_path.clone(), i, size, &lf2, root), det.clone());
        out.expect("sound:root", "false", observe(expected_path.clone(), i, size, &lf, x), det.clone());
        let mut root2 = root;
        root2[31] ^= 1;
        out.expect("sound:root-bit", "false", observe(expected_path.clone(), i, size, &lf, root2), det.clone());
        for j in 0..expected_path.len() / 32 {
            let mut p = expected_path.clone();
            p[j * 32..(j + 1) * 32].copy_from_slice(&x);
            out.expect("sound:path", "false", observe(p, i, size, &lf, root), json!({"leaves": n, "i": i, "j": j}));
            let mut p = expected_path.clone();
            p[j * 32 + 7] ^= 0x10;
            out.expect("sound:path-bit", "false", observe(p, i, size, &lf, root), json!({"leaves": n, "i": i, "j": j}));
        }
        // index / size / length mutations: the model's verdict is exact
        let m = &c["muts"][i];
        for e in m["idx"].as_array().unwrap() {
            let i2 = e[0].as_u64().unwrap() as usize;
            out.expect(
                "mut:idx",
                e[1].as_str().unwrap(),
                observe(expected_path.clone(), i2, size, &lf, root),
                json!({"leaves": n, "i": i, "i2": i2}),
            );
        }
        for e in m["size"].as_array().unwrap() {
            let s2 = e[0].as_u64().unwrap() as usize;
            out.expect(
                "mut:size",
                e[1].as_str().unwrap(),
                observe(expected_path.clone(), i, s2, &lf, root),
                json!({"leaves": n, "i": i, "s2": s2}),
            );
        }
        let mut longer = expected_path.clone();
        longer.extend_from_slice(&x);
        out.expect("mut:longer", m["longer"].as_str().unwrap(), observe(longer, i, size, &lf, root), det.clone());
        if m["shorter"].as_str().unwrap() != "none" {
            let shorter = expected_path[32..].to_vec();
            out.expect("mut:shorter", m["shorter"].as_str().unwrap(), observe(shorter, i, size, &lf, root), det.clone());
        }
        // audit path whose byte length is not a multiple of 32 is a decode error
        let mut ragged = expected_path.clone();
        ragged.push(1);
        out.expect("mut:ragged", "reject", observe(ragged, i, size, &lf, root), det);
    }
}

fn word(sym: &Value) -> Option<usize> {
    let base = sym[0].as_str().unwrap();
    let off = sym[1].as_u64().unwrap() as usize;
    Some(match base {
        "lo" => off,
        "half-" => (1usize << 63) - off,
        "half+" => (1usize << 63) + off,
        "top-" => usize::MAX - off,
        _ => return None,
    })
}

fn triple_case(c: &Value, out: &mut Out) {
    let (Some(idx), Some(size)) = (word(&c["idx"]), word(&c["size"])) else {
        return;
    };
    let x: [u8; 32] = eval(&json!(["X"]));
    let root = [0x52u8; 32];
    let lens: Vec<usize> = match c["len"].as_u64() {
        Some(l) => vec![l as usize],
        None => (0..=66).collect(), // "all": every length a 64-bit walk could need, and beyond
    };
    let expect = c["expect"].as_str().unwrap();
    for len in lens {
        let path: Vec<u8> = std::iter::repeat(x).take(len).flatten().collect();
        let obs = observe(path, idx, size, b"leaf", root);
        let det = json!({"len": len, "idx": c["idx"], "size": c["size"]});
        if expect == "nopanic" {
            out.expect("triple", "nopanic", if obs == "panic" { "panic" } else { "nopanic" }, det);
        } else {
            out.expect("triple", expect, obs, det);
        }
    }
}

fn main() {
    std::panic::set_hook(Box::new(|_| {}));
    let inp = std::env::var("VERIF_IN").expect("VERIF_IN");
    let outp = std::env::var("VERIF_OUT").expect("VERIF_OUT");
    let rd = std::io::BufReader::new(std::fs::File::open(inp).unwrap());
    let mut wr = std::io::BufWriter::new(std::fs::File::create(outp).unwrap());
    for (k, line) in rd.lines().enumerate() {
        let line = line.unwrap();
        if line.trim().is_empty() {
            continue;
        }
        let c: Value = serde_json::from_str(&line).unwrap();
        let mut out = Out {
            checks: 0,
            mism: Vec::new(),
        };
        match c["kind"].as_str().unwrap() {
            "tree" => tree_case(&c, &mut out),
            "triple" => triple_case(&c, &mut out),
            other => panic!("unknown case kind {other}"),
        }
        writeln!(wr, "{}", json!({"case": k, "kind": c["kind"], "checks": out.checks, "mismatches": out.mism})).unwrap();
    }
    wr.flush().unwrap();
}
