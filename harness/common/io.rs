//! Line-oriented JSON I/O shared by the in-crate harnesses: cases come from VERIF_IN, results go to VERIF_OUT.
use std::io::{
    BufRead as _,
    Write as _,
};

use serde_json::Value;

pub(super) fn read_cases() -> Vec<Value> {
    let inp = std::env::var("VERIF_IN").expect("VERIF_IN must be set");
    let rd = std::io::BufReader::new(std::fs::File::open(&inp).expect("cannot open VERIF_IN"));
    rd.lines()
        .map(|l| l.expect("read line"))
        .filter(|l| !l.trim().is_empty())
        .map(|l| serde_json::from_str(&l).expect("case is JSON"))
        .collect()
}

pub(super) struct Writer(std::io::BufWriter<std::fs::File>);

impl Writer {
    pub(super) fn open() -> Self {
        let outp = std::env::var("VERIF_OUT").expect("VERIF_OUT must be set");
        Self(std::io::BufWriter::new(
            std::fs::File::create(outp).expect("cannot create VERIF_OUT"),
        ))
    }

    pub(super) fn put(&mut self, v: &Value) {
        writeln!(self.0, "{v}").expect("write result");
        // results must survive a later panic of the code under test
        self.0.flush().expect("flush result");
    }
}
