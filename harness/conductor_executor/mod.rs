//! S->I replay harness for spec/Conductor.tla, compiled into `astria_conductor::executor`.
//!
//! The real `Initialized` executor is built by hand (its own channels, an empty reader-task map) and talks over real
//! gRPC (tonic on a localhost socket) to an in-process fake rollup that implements `ExecutionService`, records every
//! RPC it sees and resolves parent hashes to block numbers.
//!
//! `transitions`: one case per transition TLC explored.  The abstract pre-state (soft, firm, pending) is materialised
//!     (the rollup is given the chain 0..=soft, the executor a session on it), `execute_soft` / `execute_firm` is
//!     called with the block of the case, and the outcome, the new state, `is_spread_too_large` before and after and
//!     the RPCs issued are reported.
//! `behaviours`: one case per batched behaviour of the spec: blocks are put on the executor's real channels while the
//!     real `run_event_loop` is not being polled, then the loop runs until it goes quiet; at every `settle` the state and
//!     the whole RPC log are reported.  This exercises the biased select and the spread gate.
#![allow(clippy::all, clippy::pedantic)]
use std::{
    collections::HashMap,
    panic::AssertUnwindSafe,
    sync::{
        Arc,
        Mutex,
    },
    time::Duration,
};

use astria_core::{
    execution::v2::ExecutedBlockMetadata,
    generated::astria::execution::v2::{
        self as raw,
        execution_service_server::{
            ExecutionService,
            ExecutionServiceServer,
        },
    },
    primitive::v1::RollupId,
    protocol::test_utils::ConfigureSequencerBlock,
    sequencerblock::v1::block,
    Protobuf as _,
};
use futures::FutureExt as _;
use serde_json::{
    json,
    Value,
};
use tokio_util::{
    sync::CancellationToken,
    task::JoinMap,
};
use tonic::{
    Request,
    Response,
};

use super::{
    client::Client,
    state::{
        self,
        State,
    },
    Initialized,
};
use crate::{
    celestia::ReconstructedBlock,
    config::CommitLevel,
    Config,
};

#[path = "/verif/harness/common/io.rs"]
mod io;

const SEQ_START: u64 = 10;
const ROLLUP_START: u64 = 1;

fn rollup_id() -> RollupId {
    RollupId::new([24; 32])
}

// ------------------------------------------------------------------------------------------------ the fake rollup

#[derive(Default)]
struct Rollup {
    spread: u64,
    by_hash: HashMap<String, u64>,
    by_number: HashMap<u64, raw::ExecutedBlockMetadata>,
    commitment: Option<raw::CommitmentState>,
    log: Vec<Value>,
    sessions: u64,
}

fn ts() -> pbjson_types::Timestamp {
    pbjson_types::Timestamp {
        seconds: 1,
        nanos: 0,
    }
}

impl Rollup {
    fn reset(&mut self, soft: u64, firm: u64, spread: u64) {
        *self = Rollup::default();
        self.spread = spread;
        for n in 0..=soft {
            let md = raw::ExecutedBlockMetadata {
                number: n,
                hash: format!("blk-{n}"),
                parent_hash: if n == 0 { "genesis".into() } else { format!("blk-{}", n - 1) },
                timestamp: Some(ts()),
                sequencer_block_hash: hex::encode([n as u8; 32]),
            };
            self.by_hash.insert(md.hash.clone(), n);
            self.by_number.insert(n, md);
        }
        self.commitment = Some(raw::CommitmentState {
            soft_executed_block_metadata: Some(self.by_number[&soft].clone()),
            firm_executed_block_metadata: Some(self.by_number[&firm].clone()),
            lowest_celestia_search_height: 1,
        });
    }
}

struct FakeRollup(Arc<Mutex<Rollup>>);

/// The height (relative to the model: 1, 2, ..) a sequencer block hash made by `block_hash_of` stands for.
fn height_of_hash(hex_hash: &str) -> i64 {
    let h = hex_hash.trim_start_matches("0x");
    i64::from_str_radix(&h[..2.min(h.len())], 16).unwrap_or(-1)
}

fn block_hash_of(h: u64) -> block::Hash {
    block::Hash::new([h as u8; 32])
}

#[tonic::async_trait]
impl ExecutionService for FakeRollup {
    async fn create_execution_session(
        self: Arc<Self>,
        _request: Request<raw::CreateExecutionSessionRequest>,
    ) -> tonic::Result<Response<raw::ExecutionSession>> {
        let mut r = self.0.lock().unwrap();
        r.sessions += 1;
        Ok(Response::new(raw::ExecutionSession {
            session_id: format!("session-{}", r.sessions),
            execution_session_parameters: Some(raw::ExecutionSessionParameters {
                rollup_id: Some(rollup_id().into_raw()),
                rollup_start_block_number: ROLLUP_START,
                rollup_end_block_number: 0,
                sequencer_chain_id: "test-sequencer-0".to_string(),
                sequencer_start_block_height: SEQ_START,
                celestia_chain_id: "test-celestia-0".to_string(),
                celestia_search_height_max_look_ahead: r.spread,
            }),
            commitment_state: r.commitment.clone(),
        }))
    }

    async fn get_executed_block_metadata(
        self: Arc<Self>,
        request: Request<raw::GetExecutedBlockMetadataRequest>,
    ) -> tonic::Result<Response<raw::ExecutedBlockMetadata>> {
        let mut r = self.0.lock().unwrap();
        let number = match request.into_inner().identifier.and_then(|i| i.identifier) {
            Some(raw::executed_block_identifier::Identifier::Number(n)) => n,
            _ => u64::MAX,
        };
        r.log.push(json!(["get", number, 0]));
        match r.by_number.get(&number) {
            Some(md) => Ok(Response::new(md.clone())),
            // a permanent error: the client does not retry on it
            None => Err(tonic::Status::invalid_argument("no such block")),
        }
    }

    async fn execute_block(
        self: Arc<Self>,
        request: Request<raw::ExecuteBlockRequest>,
    ) -> tonic::Result<Response<raw::ExecuteBlockResponse>> {
        let mut r = self.0.lock().unwrap();
        let req = request.into_inner();
        let parent = r.by_hash.get(&req.parent_hash).copied();
        let h = height_of_hash(&req.sequencer_block_hash);
        r.log.push(json!(["exec", h, parent.map_or(-1, |p| p as i64)]));
        let number = parent.map_or(9999, |p| p + 1);
        let mut hash = format!("blk-{number}");
        let mut k = 0;
        while r.by_hash.contains_key(&hash) {
            k += 1;
            hash = format!("blk-{number}-again{k}");
        }
        let md = raw::ExecutedBlockMetadata {
            number,
            hash: hash.clone(),
            parent_hash: req.parent_hash,
            timestamp: Some(ts()),
            sequencer_block_hash: req.sequencer_block_hash,
        };
        r.by_hash.insert(hash, number);
        r.by_number.insert(number, md.clone());
        Ok(Response::new(raw::ExecuteBlockResponse {
            executed_block_metadata: Some(md),
        }))
    }

    async fn update_commitment_state(
        self: Arc<Self>,
        request: Request<raw::UpdateCommitmentStateRequest>,
    ) -> tonic::Result<Response<raw::CommitmentState>> {
        let mut r = self.0.lock().unwrap();
        let cs = request.into_inner().commitment_state.unwrap_or_default();
        let soft = cs.soft_executed_block_metadata.clone().unwrap_or_default();
        let firm = cs.firm_executed_block_metadata.clone().unwrap_or_default();
        // the commitments must name blocks of this rollup's chain, by hash, and the block named for number n must be the
        // one executed from sequencer height n
        let known = |r: &Rollup, md: &raw::ExecutedBlockMetadata| {
            r.by_hash.get(&md.hash) == Some(&md.number)
                && r.by_number.get(&md.number).is_some_and(|b| {
                    b.hash == md.hash && (md.number == 0 || height_of_hash(&b.sequencer_block_hash) == md.number as i64)
                })
        };
        let entry = if known(&r, &soft) && known(&r, &firm) {
            json!(["commit", soft.number, firm.number])
        } else {
            json!(["commit-unknown-hash", soft.number, firm.number])
        };
        r.log.push(entry);
        r.commitment = Some(cs.clone());
        Ok(Response::new(cs))
    }
}

async fn spawn_rollup() -> (Arc<Mutex<Rollup>>, String) {
    use tokio_stream::wrappers::TcpListenerStream;
    let listener = tokio::net::TcpListener::bind("127.0.0.1:0").await.unwrap();
    let addr = listener.local_addr().unwrap();
    let inner = Arc::new(Mutex::new(Rollup::default()));
    let svc = FakeRollup(inner.clone());
    tokio::spawn(async move {
        tonic::transport::Server::builder()
            .add_service(ExecutionServiceServer::new(svc))
            .serve_with_incoming(tokio_stream::StreamExt::map(TcpListenerStream::new(listener), |s| {
                s.map(|s| {
                    // no 40 ms delayed-ACK stalls between the small request/response frames
                    let _ = s.set_nodelay(true);
                    s
                })
            }))
            .await
            .unwrap();
    });
    (inner, format!("http://{addr}"))
}

// ------------------------------------------------------------------------------------------------ the executor

fn commit_level(mode: &str) -> CommitLevel {
    match mode {
        "SoftOnly" => CommitLevel::SoftOnly,
        "FirmOnly" => CommitLevel::FirmOnly,
        "SoftAndFirm" => CommitLevel::SoftAndFirm,
        other => panic!("unknown mode {other}"),
    }
}

fn config(level: CommitLevel, uri: &str) -> Config {
    Config {
        celestia_block_time_ms: 12000,
        celestia_node_http_url: "http://127.0.0.1:1".into(),
        no_celestia_auth: true,
        celestia_bearer_token: String::new(),
        sequencer_grpc_url: "http://127.0.0.1:1".into(),
        sequencer_cometbft_url: "http://127.0.0.1:1".into(),
        sequencer_block_time_ms: 2000,
        sequencer_requests_per_second: 500,
        execution_rpc_url: uri.into(),
        log: "info".into(),
        execution_commit_level: level,
        force_stdout: false,
        no_otel: true,
        no_metrics: true,
        metrics_http_listener_addr: String::new(),
    }
}

fn metrics() -> &'static crate::Metrics {
    use std::sync::OnceLock;
    static M: OnceLock<&'static crate::Metrics> = OnceLock::new();
    M.get_or_init(|| {
        let m: crate::Metrics = <crate::Metrics as telemetry::Metrics>::noop_metrics(&()).unwrap();
        Box::leak(Box::new(m))
    })
}

struct Senders {
    firm: tokio::sync::mpsc::Sender<Box<ReconstructedBlock>>,
    soft: tokio::sync::mpsc::Sender<astria_core::sequencerblock::v1::block::FilteredSequencerBlock>,
}

/// What `Executor::init` does, minus spawning the two readers: a new session on the rollup, the tracked state built
/// from it, the block channels sized from it.
async fn start(level: CommitLevel, uri: &str) -> (Initialized, Senders) {
    let mut client = Client::connect_lazy(uri).unwrap();
    let session = client.create_execution_session_with_retry().await.unwrap();
    let (st, _) = state::channel(State::try_from_execution_session(&session, level).unwrap());
    let super::Channels {
        firm_sender,
        firm_receiver,
        soft_sender,
        soft_receiver,
    } = super::create_block_channels(level, &st).unwrap();
    let shutdown = CancellationToken::new();
    let init = Initialized {
        config: config(level, uri),
        client,
        firm_blocks: firm_receiver,
        soft_blocks: soft_receiver,
        shutdown: shutdown.clone(),
        state: st,
        // whatever map type the executor keeps its soft-executed blocks in
        blocks_pending_finalization: Default::default(),
        metrics: metrics(),
        reader_tasks: JoinMap::new(),
        reader_cancellation_token: shutdown.child_token(),
    };
    (
        init,
        Senders {
            firm: firm_sender,
            soft: soft_sender,
        },
    )
}

fn sequencer_block(h: u64) -> astria_core::sequencerblock::v1::SequencerBlock {
    ConfigureSequencerBlock {
        block_hash: Some(block_hash_of(h)),
        chain_id: Some("test-sequencer-0".to_string()),
        height: (SEQ_START + h - 1) as u32,
        sequence_data: vec![(rollup_id(), format!("tx-{h}").into_bytes())],
        unix_timestamp: (1i64, 1u32).into(),
        with_extended_commit_info: false,
        ..Default::default()
    }
    .make()
}

fn soft_block(h: u64) -> astria_core::sequencerblock::v1::block::FilteredSequencerBlock {
    sequencer_block(h).into_filtered_block([rollup_id()])
}

fn firm_block(h: u64) -> Box<ReconstructedBlock> {
    let blk = sequencer_block(h);
    Box::new(ReconstructedBlock {
        celestia_height: 100 + h,
        block_hash: *blk.block_hash(),
        header: blk.header().clone(),
        // the same RollupData-encoded items the soft block carries for this rollup
        transactions: blk
            .rollup_transactions()
            .get(&rollup_id())
            .map(|txs| txs.transactions().to_vec())
            .unwrap_or_default(),
        extended_commit_info: None,
    })
}

fn observe(init: &Initialized) -> Value {
    let mut pending: Vec<u64> = init.blocks_pending_finalization.keys().copied().collect();
    pending.sort_unstable();
    json!({
        "soft": init.state.soft_number(),
        "firm": init.state.firm_number(),
        "pending": pending,
        "spread": init.is_spread_too_large(),
    })
}

#[tokio::test(flavor = "multi_thread", worker_threads = 2)]
async fn transitions() {
    let cases = io::read_cases();
    let mut out = io::Writer::open();
    let (rollup, uri) = spawn_rollup().await;
    for c in cases.iter() {
        let level = commit_level(c["mode"].as_str().unwrap());
        let s = &c["s"];
        let (soft, firm) = (s["soft"].as_u64().unwrap(), s["firm"].as_u64().unwrap());
        rollup.lock().unwrap().reset(soft, firm, c["spread"].as_u64().unwrap());
        let (mut init, _senders) = start(level, &uri).await;
        for p in s["pending"].as_array().unwrap() {
            let n = p.as_u64().unwrap();
            let md = rollup.lock().unwrap().by_number[&n].clone();
            init.blocks_pending_finalization
                .insert(n, ExecutedBlockMetadata::try_from_raw(md).unwrap());
        }
        let before = observe(&init);
        rollup.lock().unwrap().log.clear();
        let h = c["a"]["h"].as_u64().unwrap();
        let op = c["a"]["op"].as_str().unwrap();
        let fut = async {
            match op {
                "soft" => init.execute_soft(soft_block(h)).await,
                "firm" => init.execute_firm(firm_block(h)).await,
                other => panic!("unknown op {other}"),
            }
        };
        let res = tokio::time::timeout(Duration::from_secs(10), AssertUnwindSafe(fut).catch_unwind()).await;
        let result = match res {
            Err(_) => "timeout".to_string(),
            Ok(Err(_)) => "panic".to_string(),
            Ok(Ok(Ok(()))) => "ok".to_string(),
            Ok(Ok(Err(e))) => format!("error: {e:#}"),
        };
        let after = observe(&init);
        let log = rollup.lock().unwrap().log.clone();
        out.put(&json!({"i": c["id"], "result": result, "before": before, "after": after, "rpc": log}));
    }
}

/// Polls the real event loop until it has done what the specification says this phase amounts to (the executor's
/// tracked heights, what is left on the two channels, the number of RPCs the rollup saw, whether the loop ended), or
/// `VERIF_WAIT_MS` have passed; then keeps polling for a short grace period so that anything it does beyond that shows.
/// A conforming executor reaches the condition however slow the machine is; one that does not is reported by the
/// comparison that follows.
async fn run_phase(
    init: &mut Initialized,
    senders: &Senders,
    rollup: &Arc<Mutex<Rollup>>,
    expect: &Value,
) -> Option<String> {
    let env_ms = |k: &str, d: u64| Duration::from_millis(std::env::var(k).ok().and_then(|s| s.parse().ok()).unwrap_or(d));
    let wait = env_ms("VERIF_WAIT_MS", 20_000);
    let grace = env_ms("VERIF_GRACE_MS", 25);
    let watch = init.state.subscribe();
    let reached = |ended: &Option<String>| {
        let soft = watch.next_expected_soft_sequencer_height().value() - SEQ_START;
        let firm = watch.next_expected_firm_sequencer_height().value() - SEQ_START;
        ended.is_some() == expect["dead"].as_bool().unwrap()
            && soft == expect["soft"].as_u64().unwrap()
            && firm == expect["firm"].as_u64().unwrap()
            && rollup.lock().unwrap().log.len() >= expect["rpc"].as_array().unwrap().len()
            && (senders.soft.max_capacity() - senders.soft.capacity()) as u64 == expect["softLeft"].as_u64().unwrap()
            && (senders.firm.max_capacity() - senders.firm.capacity()) as u64 == expect["firmLeft"].as_u64().unwrap()
    };
    let mut ended = None;
    let lp = AssertUnwindSafe(init.run_event_loop()).catch_unwind();
    tokio::pin!(lp);
    let deadline = tokio::time::Instant::now() + wait;
    let mut grace_until = None;
    loop {
        if grace_until.is_none() && reached(&ended) {
            grace_until = Some(tokio::time::Instant::now() + grace);
        }
        let now = tokio::time::Instant::now();
        if grace_until.is_some_and(|g| now >= g) || now >= deadline {
            break;
        }
        tokio::select! {
            r = &mut lp, if ended.is_none() => {
                ended = Some(match r {
                    Err(_) => "panic".to_string(),
                    Ok(Ok(_)) => "exited".to_string(),
                    Ok(Err(e)) => format!("error: {e:#}"),
                });
            }
            () = tokio::time::sleep(Duration::from_millis(2)) => {}
        }
    }
    ended
}

#[tokio::test(flavor = "multi_thread", worker_threads = 2)]
async fn behaviours() {
    let cases = io::read_cases();
    let mut out = io::Writer::open();
    let (rollup, uri) = spawn_rollup().await;
    for c in cases.iter() {
        let level = commit_level(c["mode"].as_str().unwrap());
        rollup.lock().unwrap().reset(0, 0, c["spread"].as_u64().unwrap());
        let (mut init, mut senders) = start(level, &uri).await;
        let mut dead: Option<String> = None;
        let mut settles = vec![];
        let mut load_errors: Vec<String> = vec![];
        let hist = c["hist"].as_array().unwrap();
        for (n, ev) in hist.iter().enumerate() {
            let h = ev["h"].as_u64().unwrap_or(0);
            if std::env::var("VERIF_DEBUG").is_ok() {
                eprintln!("ev {ev} softcap {} firmcap {} log {:?}", senders.soft.capacity(), senders.firm.capacity(), rollup.lock().unwrap().log);
            }
            match ev["op"].as_str().unwrap() {
                // the model only delivers when the channel has room; if the real channel is full the executor has
                // not read what the model says it reads -- reported with the next settle, not a harness failure
                "soft" => {
                    if senders.soft.try_send(soft_block(h)).is_err() {
                        load_errors.push(format!("soft {h}: channel full or closed"));
                    }
                }
                "firm" => {
                    if senders.firm.try_send(firm_block(h)).is_err() {
                        load_errors.push(format!("firm {h}: channel full or closed"));
                    }
                }
                "restart" => {
                    drop(init);
                    let (i2, s2) = start(level, &uri).await;
                    init = i2;
                    senders = s2;
                    dead = None;
                }
                "go" => {
                    if dead.is_none() {
                        let expect = hist[n..].iter().find(|e| e["op"] == "settle").expect("a go is followed by a settle");
                        dead = run_phase(&mut init, &senders, &rollup, expect).await;
                        if std::env::var("VERIF_DEBUG").is_ok() {
                            eprintln!("phase ended: {dead:?}");
                        }
                    }
                }
                "settle" => {
                    let mut o = observe(&init);
                    o["dead"] = json!(dead.is_some());
                    o["ended"] = json!(dead.clone());
                    o["load_errors"] = json!(load_errors.clone());
                    o["rpc"] = json!(rollup.lock().unwrap().log.clone());
                    o["softLeft"] = json!(senders.soft.max_capacity() - senders.soft.capacity());
                    o["firmLeft"] = json!(senders.firm.max_capacity() - senders.firm.capacity());
                    settles.push(o);
                }
                other => panic!("unknown op {other}"),
            }
        }
        out.put(&json!({"i": c["id"], "settles": settles}));
    }
}

// ------------------------------------------------------------------------------------------------ block cache

/// A stand-in for a block: all the cache looks at is the height.
struct TestBlock(u64);

impl crate::block_cache::GetSequencerHeight for TestBlock {
    fn get_height(&self) -> sequencer_client::tendermint::block::Height {
        (self.0 as u32).into()
    }
}

/// `block_cache_transitions`: every transition of spec/BlockCache.tla on the real `BlockCache`: the abstract pre-state
/// is built with the cache's own `insert`, the operation applied, and the outcome, the next height and the heights held
/// (probed with `insert`: Occupied / Old / vacant) compared with the specification.
#[test]
fn block_cache_transitions() {
    use crate::block_cache::{
        BlockCache,
        Error,
    };
    let cases = io::read_cases();
    let mut out = io::Writer::open();
    for c in &cases {
        let s = &c["s"];
        let a = &c["a"];
        let mut cache: BlockCache<TestBlock> =
            BlockCache::with_next_height((s["next"].as_u64().unwrap() as u32).into()).unwrap();
        for h in s["cache"].as_array().unwrap() {
            cache.insert(TestBlock(h.as_u64().unwrap())).unwrap();
        }
        let h = a["h"].as_u64().unwrap_or(0);
        let outcome = match a["op"].as_str().unwrap() {
            "insert" => match cache.insert(TestBlock(h)) {
                Ok(()) => json!("ok"),
                Err(Error::Old {
                    ..
                }) => json!("old"),
                Err(Error::Occupied {
                    ..
                }) => json!("occupied"),
                Err(e) => json!(format!("error: {e}")),
            },
            "pop" => json!(cache.pop().map_or(0, |b| b.0)),
            "drop_obsolete" => {
                cache.drop_obsolete((h as u32).into());
                json!("ok")
            }
            other => panic!("unknown op {other}"),
        };
        let next = cache.next_height_to_pop();
        // which heights are held: a held height is Occupied, one below `next` is Old, anything else goes in
        let mut held = vec![];
        for p in 1..=c["max_h"].as_u64().unwrap() + 2 {
            if let Err(Error::Occupied {
                ..
            }) = cache.insert(TestBlock(p))
            {
                held.push(p);
            }
        }
        out.put(&json!({"i": c["id"], "out": outcome, "next": next, "cache": held}));
    }
}
