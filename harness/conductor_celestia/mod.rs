//! S->I replay harness for spec/Quorum.tla, compiled into `astria_conductor::celestia`.
//!
//! `quorum_cases`  : every (validator powers, commit) case TLC enumerated -> real ed25519 keys, real
//!                   canonical-vote signatures, real `ensure_commit_has_quorum`; the verdict (Ok / error variant)
//!                   must equal the model's.
//! `pipeline_cases`: metadata / rollup blobs through the real `decode_raw_blobs` -> `verify_metadata`
//!                   (against a wiremock CometBFT RPC) -> `reconstruct_blocks_from_verified_blobs`.
#![allow(clippy::all, clippy::pedantic)]
use std::{
    collections::HashMap,
    panic::{
        catch_unwind,
        AssertUnwindSafe,
    },
    sync::Arc,
};

use astria_core::{
    crypto::SigningKey,
    primitive::v1::RollupId,
    protocol::test_utils::ConfigureSequencerBlock,
    sequencerblock::v1::block,
};
use prost::Message as _;
use sequencer_client::{
    tendermint::{
        self,
        block::{
            Commit,
            CommitSig,
        },
        validator,
    },
    tendermint_proto,
    tendermint_rpc::{
        self,
        endpoint::validators,
    },
};
use serde_json::{
    json,
    Value,
};

use super::block_verifier::{
    ensure_commit_has_quorum,
    QuorumError,
};

#[path = "/verif/harness/common/io.rs"]
mod io;

const CHAIN_ID: &str = "test-sequencer-0";

fn key(i: usize) -> SigningKey {
    // validator 0 is the "unknown" signer: a key that is not in the validator set
    SigningKey::from([i as u8 + 17; 32])
}

fn info(i: usize, power: u64) -> validator::Info {
    let pub_key =
        tendermint::public_key::PublicKey::from_raw_ed25519(key(i).verification_key().as_ref()).unwrap();
    validator::Info {
        address: tendermint::account::Id::from(pub_key),
        pub_key,
        power: tendermint::vote::Power::try_from(power).expect("power fits i64"),
        proposer_priority: 0.into(),
        name: None,
    }
}

fn block_id(hash: [u8; 32]) -> tendermint::block::Id {
    tendermint::block::Id {
        hash: tendermint::Hash::Sha256(hash),
        part_set_header: tendermint::block::parts::Header::default(),
    }
}

fn timestamp() -> tendermint::Time {
    tendermint::Time::from_unix_timestamp(1, 1).unwrap()
}

fn vote_bytes(height: u32, hash: Option<[u8; 32]>) -> Vec<u8> {
    vote_bytes_c(CHAIN_ID, height, hash)
}

fn vote_bytes_c(chain: &str, height: u32, hash: Option<[u8; 32]>) -> Vec<u8> {
    let canonical_vote = tendermint::vote::CanonicalVote {
        vote_type: tendermint::vote::Type::Precommit,
        height: height.into(),
        round: 0u16.into(),
        block_id: hash.map(block_id),
        timestamp: Some(timestamp()),
        chain_id: chain.try_into().unwrap(),
    };
    tendermint_proto::types::CanonicalVote::from(canonical_vote).encode_length_delimited_to_vec()
}

const HASH_H: [u8; 32] = [0x48; 32];
const HASH_X: [u8; 32] = [0x58; 32];

/// Signature cache: (validator, kind, height) -> signature over the appropriate message.
struct Signer {
    cache: HashMap<(usize, String, u32), tendermint::Signature>,
}

impl Signer {
    fn sig(&mut self, v: usize, kind: &str, height: u32) -> tendermint::Signature {
        self.cache
            .entry((v, kind.to_string(), height))
            .or_insert_with(|| {
                let raw = match kind {
                    "valid" => key(v).sign(&vote_bytes(height, Some(HASH_H))),
                    // right message, wrong key
                    "forged" => key(v + 100).sign(&vote_bytes(height, Some(HASH_H))),
                    // right key, a vote for another block
                    "other" => key(v).sign(&vote_bytes(height, Some(HASH_X))),
                    // a correctly signed precommit for nil
                    "nil" => key(v).sign(&vote_bytes(height, None)),
                    _ => unreachable!(),
                };
                raw.to_bytes().as_ref().try_into().unwrap()
            })
            .clone()
    }
}

fn make_commit(entries: &[Value], height: u32, signer: &mut Signer) -> Commit {
    let signatures = entries
        .iter()
        .map(|e| {
            let v = e["v"].as_u64().unwrap() as usize;
            let validator_address = info(v, 1).address;
            match e["kind"].as_str().unwrap() {
                "absent" => CommitSig::BlockIdFlagAbsent,
                "nil" => CommitSig::BlockIdFlagNil {
                    validator_address,
                    timestamp: timestamp(),
                    signature: Some(signer.sig(v, "nil", height)),
                },
                "missing" => CommitSig::BlockIdFlagCommit {
                    validator_address,
                    timestamp: timestamp(),
                    signature: None,
                },
                kind => CommitSig::BlockIdFlagCommit {
                    validator_address,
                    timestamp: timestamp(),
                    signature: Some(signer.sig(v, kind, height)),
                },
            }
        })
        .collect();
    Commit {
        height: height.into(),
        round: 0u16.into(),
        block_id: block_id(HASH_H),
        signatures,
    }
}

fn make_validators(powers: &[u64], height: u32) -> validators::Response {
    let infos: Vec<_> = powers.iter().enumerate().map(|(i, p)| info(i + 1, *p)).collect();
    let n = infos.len() as i32;
    validators::Response::new(height.into(), infos, n)
}

fn verdict_name(r: &Result<(), QuorumError>) -> &'static str {
    match r {
        Ok(()) => "ok",
        Err(QuorumError::CommitHeightMismatch {
            ..
        }) => "CommitHeightMismatch",
        Err(QuorumError::CommitVotingPowerExceedsTotal {
            ..
        }) => "CommitVotingPowerExceedsTotal",
        Err(QuorumError::EmptySignature {
            ..
        }) => "EmptySignature",
        Err(QuorumError::NoQuorum {
            ..
        }) => "NoQuorum",
        Err(QuorumError::NoSuchValidator {
            ..
        }) => "NoSuchValidator",
        Err(QuorumError::Signature(_)) => "Signature",
        Err(QuorumError::TotalVotingPowerOverflowed) => "TotalVotingPowerOverflowed",
        Err(QuorumError::ValidatorAddressMismatch {
            ..
        }) => "ValidatorAddressMismatch",
        Err(QuorumError::VerificationKey(_)) => "VerificationKey",
        Err(QuorumError::VerifyVoteSignature(_)) => "VerifyVoteSignature",
        #[allow(unreachable_patterns)]
        Err(_) => "DuplicateVote",
    }
}

#[test]
fn quorum_cases() {
    let cases = io::read_cases();
    let mut out = io::Writer::open();
    let mut signer = Signer {
        cache: HashMap::new(),
    };
    let chain_id: tendermint::chain::Id = CHAIN_ID.try_into().unwrap();
    let scale = std::env::var("VERIF_POWER_SCALE").ok().and_then(|s| s.parse::<u64>().ok()).unwrap_or(1);
    for (k, c) in cases.iter().enumerate() {
        let powers: Vec<u64> = c["powers"].as_array().unwrap().iter().map(|p| p.as_u64().unwrap() * scale).collect();
        let entries = c["commit"].as_array().unwrap();
        let vals = make_validators(&powers, 7);
        let commit = make_commit(entries, 7, &mut signer);
        let got = catch_unwind(AssertUnwindSafe(|| ensure_commit_has_quorum(&commit, &vals, &chain_id)));
        let observed = match &got {
            Ok(r) => verdict_name(r),
            Err(_) => "panic",
        };
        let expected = c["verdict"].as_str().unwrap();
        let mut mism = vec![];
        if observed != expected {
            mism.push(json!({
                "sig": format!("quorum:commit:expected={expected}:observed={observed}"),
                "detail": {"powers": powers, "commit": c["commit"]},
            }));
        }
        out.put(&json!({"case": k, "mismatches": mism}));
    }
}

// ---------------------------------------------------------------------------------------------
// pipeline
// ---------------------------------------------------------------------------------------------
fn rollup_id_target() -> RollupId {
    RollupId::new([24; 32])
}

fn rollup_id_other() -> RollupId {
    RollupId::new([99; 32])
}

fn signed_header(height: u32, commit: Commit) -> tendermint::block::signed_header::SignedHeader {
    signed_header_c(CHAIN_ID, height, commit)
}

fn signed_header_c(chain: &str, height: u32, commit: Commit) -> tendermint::block::signed_header::SignedHeader {
    tendermint::block::signed_header::SignedHeader::new(
        tendermint::block::Header {
            version: tendermint::block::header::Version {
                block: 1,
                app: 1,
            },
            chain_id: chain.try_into().unwrap(),
            height: height.into(),
            time: timestamp(),
            last_block_id: None,
            last_commit_hash: None,
            data_hash: None,
            validators_hash: tendermint::Hash::Sha256([0; 32]),
            next_validators_hash: tendermint::Hash::Sha256([0; 32]),
            consensus_hash: tendermint::Hash::Sha256([0; 32]),
            app_hash: tendermint::AppHash::default(),
            last_results_hash: None,
            evidence_hash: None,
            proposer_address: info(1, 1).address,
        },
        commit,
    )
    .unwrap()
}

async fn mount(server: &wiremock::MockServer, height: u32, commit: Commit, vals: validators::Response) {
    mount_c(CHAIN_ID, server, height, commit, vals).await;
}

async fn mount_c(chain: &str, server: &wiremock::MockServer, height: u32, commit: Commit, vals: validators::Response) {
    use wiremock::{
        matchers::body_partial_json,
        Mock,
        ResponseTemplate,
    };
    Mock::given(body_partial_json(json!({"jsonrpc": "2.0", "method": "commit", "params": {"height": height.to_string()}})))
        .respond_with(ResponseTemplate::new(200).set_body_json(tendermint_rpc::response::Wrapper::new_with_id(
            tendermint_rpc::Id::uuid_v4(),
            Some(tendermint_rpc::endpoint::commit::Response {
                signed_header: signed_header_c(chain, height, commit),
                canonical: true,
            }),
            None,
        )))
        .mount(server)
        .await;
    Mock::given(body_partial_json(json!({"jsonrpc": "2.0", "method": "validators", "params": {"height": height.to_string()}})))
        .respond_with(ResponseTemplate::new(200).set_body_json(tendermint_rpc::response::Wrapper::new_with_id(
            tendermint_rpc::Id::uuid_v4(),
            Some(vals),
            None,
        )))
        .mount(server)
        .await;
}

fn blob(ns: celestia_types::nmt::Namespace, bytes: Vec<u8>) -> celestia_types::Blob {
    celestia_types::Blob::new(ns, bytes, celestia_types::AppVersion::V3).unwrap()
}

#[tokio::test]
async fn pipeline_cases() {
    use astria_core::generated::astria::sequencerblock::v1::{
        SubmittedMetadataList,
        SubmittedRollupDataList,
    };
    let cases = io::read_cases();
    let mut out = io::Writer::open();
    let mut signer = Signer {
        cache: HashMap::new(),
    };
    let server = wiremock::MockServer::start().await;
    // height 11: every validator signs; height 12: nobody does
    let nv = 3usize;
    let all: Vec<Value> = (1..=nv).map(|v| json!({"v": v, "kind": "valid"})).collect();
    let none: Vec<Value> = (1..=nv).map(|v| json!({"v": v, "kind": "absent"})).collect();
    mount(&server, 11, make_commit(&all, 11, &mut signer), make_validators(&vec![1; nv], 11)).await;
    mount(&server, 12, make_commit(&none, 12, &mut signer), make_validators(&vec![1; nv], 12)).await;
    let client = sequencer_client::HttpClient::new(server.uri().as_str()).unwrap();
    let (_tx, state_rx) = crate::state::channel(crate::test_utils::make_rollup_state(
        "verif".to_string(),
        crate::test_utils::make_execution_session_parameters(),
        crate::test_utils::make_commitment_state(),
    ));
    let seq_ns = astria_core::celestia::namespace_v0_from_sha256_of_bytes(CHAIN_ID.as_bytes());
    let rollup_ns = astria_core::celestia::namespace_v0_from_rollup_id(rollup_id_target());

    for (k, c) in cases.iter().enumerate() {
        // a fresh verifier per case: its cache must not carry verdicts over
        let verifier = Arc::new(super::verify::BlobVerifier::try_new(client.clone(), 1000).unwrap());
        let signed = c["commit"][0]["kind"] == "valid";
        let height: u32 = if signed { 11 } else { 12 };
        let meta_hash = if c["meta"]["hash"] == "h" { HASH_H } else { HASH_X };
        let meta_chain = if c["meta"]["chain"] == "c" { CHAIN_ID } else { "some-other-chain" };
        let rid_is_target = c["rblob"]["rid"] == "target";
        let has_rblob = c["rblob"]["hash"] != "-" && rid_is_target;
        // the sequencer block lists the target rollup iff the model says so
        let lists_target = c["rblob"]["hash"] != "-" && rid_is_target;
        let rid = if lists_target { rollup_id_target() } else { rollup_id_other() };
        let blk = ConfigureSequencerBlock {
            block_hash: Some(block::Hash::new(meta_hash)),
            chain_id: Some(meta_chain.to_string()),
            height,
            sequence_data: vec![(rid, b"hello_world".to_vec()), (rid, b"second".to_vec())],
            unix_timestamp: (1i64, 1u32).into(),
            signing_key: Some(key(1)),
            ..Default::default()
        }
        .make();
        let (head, tail) = blk.split_for_celestia();
        let header_list = SubmittedMetadataList {
            entries: vec![head.into_raw()],
        };
        let mut rollup_entries = vec![];
        if has_rblob {
            let mut raw = tail.into_iter().find(|t| t.rollup_id() == rollup_id_target()).unwrap().into_raw();
            let want_hash = if c["rblob"]["hash"] == "h" { HASH_H } else { HASH_X };
            raw.sequencer_block_hash = want_hash.to_vec().into();
            // a further well-formed entry naming the same block but failing the audit (anyone can post one)
            let mut junk = raw.clone();
            junk.sequencer_block_hash = meta_hash.to_vec().into();
            junk.transactions.push(b"junk".to_vec().into());
            if c["rblob"]["proof"] == "bad" {
                raw.transactions.push(b"smuggled".to_vec().into());
            }
            match c["junk"].as_str().unwrap() {
                "before" => rollup_entries.extend([junk, raw]),
                "after" => rollup_entries.extend([raw, junk]),
                _ => rollup_entries.push(raw),
            }
        } else if c["junk"] != "none" {
            // no genuine blob of ours: the junk entry is built from a block that does list the target rollup
            let other = ConfigureSequencerBlock {
                block_hash: Some(block::Hash::new(meta_hash)),
                chain_id: Some(meta_chain.to_string()),
                height,
                sequence_data: vec![(rollup_id_target(), b"junk".to_vec())],
                unix_timestamp: (1i64, 1u32).into(),
                signing_key: Some(key(1)),
                ..Default::default()
            }
            .make();
            let (_, tail) = other.split_for_celestia();
            let mut junk = tail.into_iter().find(|t| t.rollup_id() == rollup_id_target()).unwrap().into_raw();
            junk.transactions.push(b"more junk".to_vec().into());
            rollup_entries.push(junk);
        }
        let header_blobs = vec![
            blob(seq_ns, b"not brotli at all".to_vec()),
            blob(seq_ns, astria_core::brotli::compress_bytes(b"brotli but not protobuf \xff\xff\xff").unwrap()),
            blob(rollup_ns, astria_core::brotli::compress_bytes(&header_list.encode_to_vec()).unwrap()), // wrong namespace
            blob(seq_ns, astria_core::brotli::compress_bytes(&header_list.encode_to_vec()).unwrap()),
        ];
        let mut rollup_blobs = vec![blob(rollup_ns, vec![0xde, 0xad]), blob(rollup_ns, vec![])];
        if !rollup_entries.is_empty() {
            let list = SubmittedRollupDataList {
                entries: rollup_entries,
            };
            rollup_blobs.push(blob(rollup_ns, astria_core::brotli::compress_bytes(&list.encode_to_vec()).unwrap()));
        }
        let raw = super::fetch::RawBlobs {
            celestia_height: 5,
            header_blobs,
            rollup_blobs,
        };
        let decoded = catch_unwind(AssertUnwindSafe(|| super::convert::decode_raw_blobs(raw, rollup_ns, seq_ns)));
        let mut mism = vec![];
        let observed = match decoded {
            Err(_) => "panic:decode".to_string(),
            Ok(converted) => {
                let verified = super::verify::verify_metadata(verifier, converted, state_rx.clone()).await;
                match catch_unwind(AssertUnwindSafe(|| {
                    super::reconstruct::reconstruct_blocks_from_verified_blobs(verified, rollup_id_target())
                })) {
                    Err(_) => "panic:reconstruct".to_string(),
                    Ok(blocks) => match blocks.as_slice() {
                        [] => "none".to_string(),
                        [b] if b.transactions.is_empty() => "empty".to_string(),
                        [b] => {
                            if b.transactions.len() == 2 && b.block_hash.get() == meta_hash {
                                "with_data".to_string()
                            } else {
                                format!("with_unexpected_data:{}", b.transactions.len())
                            }
                        }
                        more => format!("{}_blocks", more.len()),
                    },
                }
            }
        };
        let expected = c["reconstructed"].as_str().unwrap();
        if observed != expected {
            mism.push(json!({
                "sig": format!("quorum:pipeline:expected={expected}:observed={observed}"),
                "detail": {"commit_signed": signed, "meta": c["meta"], "rblob": c["rblob"], "junk": c["junk"]},
            }));
        }
        out.put(&json!({"case": k, "mismatches": mism}));
    }
}

// ------------------------------------------------------------------------------------------------------------
// C12 / C07: what the relayer published, decoded by the conductor's own pipeline

/// A commit on (height, hash) signed by all three validators.
fn full_commit(chain: &str, height: u32, hash: [u8; 32]) -> Commit {
    let signatures = (1..=3usize)
        .map(|v| CommitSig::BlockIdFlagCommit {
            validator_address: info(v, 1).address,
            timestamp: timestamp(),
            signature: Some(
                key(v).sign(&vote_bytes_c(chain, height, Some(hash))).to_bytes().as_ref().try_into().unwrap(),
            ),
        })
        .collect();
    Commit {
        height: height.into(),
        round: 0u16.into(),
        block_id: block_id(hash),
        signatures,
    }
}

/// `decode_submissions`: one case per (relayer run, rollup).  Every submission's blobs (files written by the relayer
/// harness) go through `decode_raw_blobs` -> `verify_metadata` (commits served by a wiremock CometBFT) ->
/// `reconstruct_blocks_from_verified_blobs`, as the Celestia reader does; reported per submission: the blocks
/// reconstructed (height, hash, digests of the rollup's data items).
#[tokio::test]
async fn decode_submissions() {
    use sha2::Digest as _;
    let cases = io::read_cases();
    let mut out = io::Writer::open();
    // one CometBFT mock and one tracked rollup state per (chain id, first sequencer height)
    let mut envs: HashMap<(String, u64), (wiremock::MockServer, crate::state::StateReceiver, std::collections::HashSet<(u32, [u8; 32])>)> =
        HashMap::new();
    for c in &cases {
        let chain = c["chain"].as_str().unwrap_or(CHAIN_ID).to_string();
        let seq_start = c["seq_start"].as_u64().unwrap_or(10);
        if !envs.contains_key(&(chain.clone(), seq_start)) {
            let server = wiremock::MockServer::start().await;
            let mut params = crate::test_utils::make_execution_session_parameters();
            params.sequencer_start_block_height = seq_start;
            params.sequencer_chain_id = chain.clone();
            let (tx, rx) = crate::state::channel(crate::test_utils::make_rollup_state(
                "verif".to_string(),
                params,
                crate::test_utils::make_commitment_state(),
            ));
            // the receiver must outlive the sender for `borrow` to keep working; leak the sender
            std::mem::forget(tx);
            envs.insert((chain.clone(), seq_start), (server, rx, std::collections::HashSet::new()));
        }
        let (server, state_rx, mounted) = envs.get_mut(&(chain.clone(), seq_start)).unwrap();
        let state_rx = state_rx.clone();
        let client = sequencer_client::HttpClient::new(server.uri().as_str()).unwrap();
        let seq_ns = astria_core::celestia::namespace_v0_from_sha256_of_bytes(chain.as_bytes());
        for b in c["blocks"].as_array().unwrap() {
            let h = b["chain_height"].as_u64().unwrap() as u32;
            let hash: [u8; 32] = hex::decode(b["hash"].as_str().unwrap()).unwrap().try_into().unwrap();
            if mounted.insert((h, hash)) {
                mount_c(&chain, server, h, full_commit(&chain, h, hash), make_validators(&vec![1; 3], h)).await;
            }
        }
        let rid = RollupId::new([c["rollup"].as_u64().unwrap() as u8; 32]);
        let rollup_ns = astria_core::celestia::namespace_v0_from_rollup_id(rid);
        let verifier = Arc::new(super::verify::BlobVerifier::try_new(client.clone(), 100_000).unwrap());
        let mut subs = vec![];
        for (k, sub) in c["subs"].as_array().unwrap().iter().enumerate() {
            let mut header_blobs = vec![];
            let mut rollup_blobs = vec![];
            for b in sub["blobs"].as_array().unwrap() {
                let id = hex::decode(b["ns"].as_str().unwrap()).unwrap();
                let ns = celestia_types::nmt::Namespace::new_v0(&id).unwrap();
                let mut data = std::fs::read(b["file"].as_str().unwrap()).unwrap();
                if b["plain"].as_bool().unwrap_or(false) {
                    data = astria_core::brotli::compress_bytes(&data).unwrap();
                }
                // the reader fetches by namespace: it only ever sees these two
                if ns == seq_ns {
                    header_blobs.push(blob(ns, data));
                } else if ns == rollup_ns {
                    rollup_blobs.push(blob(ns, data));
                }
            }
            let raw = super::fetch::RawBlobs {
                celestia_height: 100 + k as u64,
                header_blobs,
                rollup_blobs,
            };
            let decoded = catch_unwind(AssertUnwindSafe(|| super::convert::decode_raw_blobs(raw, rollup_ns, seq_ns)));
            let Ok(converted) = decoded else {
                subs.push(json!({"panic": "decode"}));
                continue;
            };
            let n_meta = converted.len_headers();
            let verified = super::verify::verify_metadata(verifier.clone(), converted, state_rx.clone()).await;
            let n_verified = verified.len_header_blobs();
            let blocks = match catch_unwind(AssertUnwindSafe(|| {
                super::reconstruct::reconstruct_blocks_from_verified_blobs(verified, rid)
            })) {
                Ok(b) => b,
                Err(_) => {
                    subs.push(json!({"panic": "reconstruct"}));
                    continue;
                }
            };
            let mut bl: Vec<Value> = blocks
                .iter()
                .map(|b| {
                    json!({
                        "chain_height": b.header.height().value(),
                        "hash": hex::encode(b.block_hash.as_bytes()),
                        "txs": b.transactions.iter().map(|t| hex::encode(sha2::Sha256::digest(t))).collect::<Vec<_>>(),
                    })
                })
                .collect();
            bl.sort_by_key(|b| b["chain_height"].as_u64());
            subs.push(json!({"metadata_entries": n_meta, "metadata_verified": n_verified, "blocks": bl}));
        }
        out.put(&json!({"i": c["id"], "subs": subs}));
    }
}
