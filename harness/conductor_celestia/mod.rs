//! verif harness entry for conductor_celestia (compiled into the repo crate under cfg(all(test, feature = "verif"))).
#[test]
fn smoke() {}
