//! verif harness entry for sequencer_mempool (compiled into the repo crate under cfg(all(test, feature = "verif"))).
#[test]
fn smoke() {}
