//! S->I replay harness for spec/Mempool.tla, compiled into `astria_sequencer::mempool`.
//!
//! VERIF_IN: one behaviour per line:
//!   {"parked_total": n, "steps": [{"a": <operation as printed by TLC>, "t": <expected state after it>}, ...]}
//! Every step is executed on the real `Mempool` (real signed `CheckedTransaction`s; costs handed to `insert`
//! explicitly; `run_maintenance` against a real state delta carrying the chain nonce, balance and transfer fee; expiry
//! with tokio's paused clock) and the complete internal state (pending / parked queues with costs, contained set,
//! removal cache) is compared with the specification's after every step, together with the public observers
//! (`transaction_status`, `builder_queue`, `pending_nonce`, `len`).
#![allow(clippy::all, clippy::pedantic, dead_code, unused_imports)]
use std::{
    collections::{
        BTreeMap,
        HashMap,
    },
    sync::Arc,
};

use astria_core::{
    crypto::SigningKey,
    primitive::v1::{
        asset::IbcPrefixed,
        TransactionId,
    },
    protocol::{
        fees::v1::FeeComponents,
        transaction::v1::{
            action::Transfer,
            TransactionBody,
        },
    },
    Protobuf as _,
};
use bytes::Bytes;
use cnidarium::StateDelta;
use prost::Message as _;
use serde_json::{
    json,
    Value,
};
use tendermint::abci::types::ExecTxResult;

use super::{
    transactions_container::{
        TransactionsContainer as _,
        TransactionsForAccount as _,
    },
    Mempool,
    RemovalReason,
    TransactionStatus,
};
use crate::{
    accounts::StateWriteExt as _,
    checked_transaction::CheckedTransaction,
    fees::StateWriteExt as _,
    test_utils::{
        astria_address,
        nria,
        Fixture,
    },
};

#[path = "/verif/harness/common/io.rs"]
mod io;

fn key(a: u64) -> SigningKey {
    let mut seed = [0x3cu8; 32];
    seed[0] = a as u8;
    seed[31] = 0x99;
    SigningKey::from(seed)
}

fn addr_bytes(a: u64) -> [u8; 20] {
    *key(a).verification_key().address_bytes()
}

fn asset() -> IbcPrefixed {
    nria().to_ibc_prefixed()
}

/// id in the specification: [a, n, v, c]
#[derive(Clone, Copy, PartialEq, Eq, Hash, PartialOrd, Ord, Debug)]
struct Id {
    a: u64,
    n: u64,
    v: u64,
    c: u64,
}

impl Id {
    fn of(v: &Value) -> Self {
        Id {
            a: v["a"].as_u64().unwrap(),
            n: v["n"].as_u64().unwrap(),
            v: v["v"].as_u64().unwrap(),
            c: v["c"].as_u64().unwrap(),
        }
    }

    fn json(&self) -> Value {
        json!({"a": self.a, "n": self.n, "v": self.v, "c": self.c})
    }
}

struct Run {
    fixture: Fixture,
    mempool: Mempool,
    txs: HashMap<Id, Arc<CheckedTransaction>>,
    ids: HashMap<TransactionId, Id>,
}

impl Run {
    async fn tx(&mut self, id: Id) -> Arc<CheckedTransaction> {
        if let Some(t) = self.txs.get(&id) {
            return t.clone();
        }
        // the variant picks the recipient, the cost class the amount: distinct ids, cost = amount + transfer fee
        let body = TransactionBody::builder()
            .actions(vec![Transfer {
                to: astria_address(&[0x40 + id.v as u8; 20]),
                amount: u128::from(id.c),
                asset: nria().into(),
                fee_asset: nria().into(),
            }
            .into()])
            .chain_id("test")
            .nonce(id.n as u32)
            .try_build()
            .unwrap();
        let bytes = Bytes::from(body.sign(&key(id.a)).into_raw().encode_to_vec());
        let tx = Arc::new(CheckedTransaction::new(bytes, self.fixture.state()).await.expect("constructible at nonce 0"));
        self.ids.insert(*tx.id(), id);
        self.txs.insert(id, tx.clone());
        tx
    }

    /// the complete internal state in the specification's shape
    async fn project(&self, accts: &[u64]) -> Value {
        let inner = self.mempool.inner.read().await;
        let big: HashMap<IbcPrefixed, u128> = [(asset(), u128::MAX)].into_iter().collect();
        let mut pending = vec![];
        let mut parked = vec![];
        for a in accts {
            let ab = addr_bytes(*a);
            let mut q = vec![];
            if let Some(acct) = inner.pending.txs().get(&ab) {
                for (n, ttx) in acct.txs() {
                    let id = self.ids.get(ttx.id()).copied();
                    let mut b = big.clone();
                    let _ = ttx.deduct_costs(&mut b);
                    let cost = (u128::MAX - b[&asset()]) as u64;
                    q.push(match id {
                        Some(id) => json!({"n": n, "v": id.v, "c": id.c, "cost": cost}),
                        None => json!({"n": n, "unknown": true}),
                    });
                }
            }
            pending.push(Value::Array(q));
            let mut q = vec![];
            if let Some(acct) = inner.parked.txs().get(&ab) {
                for (n, ttx) in acct.txs() {
                    let id = self.ids.get(ttx.id()).copied();
                    let mut b = big.clone();
                    let _ = ttx.deduct_costs(&mut b);
                    let cost = (u128::MAX - b[&asset()]) as u64;
                    q.push(match id {
                        Some(id) => json!({"n": n, "v": id.v, "c": id.c, "cost": cost}),
                        None => json!({"n": n, "unknown": true}),
                    });
                }
            }
            parked.push(Value::Array(q));
        }
        let mut contained: Vec<Id> = inner.contained_txs.iter().filter_map(|t| self.ids.get(t).copied()).collect();
        contained.sort();
        let unknown_contained = inner.contained_txs.iter().filter(|t| !self.ids.contains_key(*t)).count();
        let mut removed: Vec<(Id, String)> = inner
            .comet_bft_removal_cache
            .cache
            .iter()
            .filter_map(|(t, r)| {
                let name = match r {
                    RemovalReason::Expired => "Expired",
                    RemovalReason::NonceStale => "NonceStale",
                    RemovalReason::LowerNonceInvalidated => "LowerNonceInvalidated",
                    RemovalReason::FailedExecution(_) => "FailedExecution",
                    RemovalReason::InternalError => "InternalError",
                    RemovalReason::IncludedInBlock {
                        ..
                    } => "IncludedInBlock",
                };
                self.ids.get(t).map(|id| (*id, name.to_string()))
            })
            .collect();
        removed.sort();
        json!({
            "pending": pending,
            "parked": parked,
            "contained": contained.iter().map(Id::json).collect::<Vec<_>>(),
            "removed": removed.iter().map(|(id, r)| json!({"id": id.json(), "r": r})).collect::<Vec<_>>(),
            "unknown_contained": unknown_contained,
        })
    }
}

fn sort_queue(q: &Value) -> Value {
    let mut v: Vec<Value> = q.as_array().unwrap().clone();
    v.sort_by_key(|x| x["n"].as_u64().unwrap());
    Value::Array(v)
}

fn expected_state(t: &Value) -> Value {
    let st = &t["st"];
    let mut contained: Vec<Id> = st["contained"].as_array().unwrap().iter().map(Id::of).collect();
    contained.sort();
    let mut removed: Vec<(Id, String)> = st["removed"]
        .as_array()
        .unwrap()
        .iter()
        .map(|x| (Id::of(&x["id"]), x["r"].as_str().unwrap().to_string()))
        .collect();
    removed.sort();
    json!({
        "pending": st["pending"].as_array().unwrap().iter().map(sort_queue).collect::<Vec<_>>(),
        "parked": st["parked"].as_array().unwrap().iter().map(sort_queue).collect::<Vec<_>>(),
        "contained": contained.iter().map(Id::json).collect::<Vec<_>>(),
        "removed": removed.iter().map(|(id, r)| json!({"id": id.json(), "r": r})).collect::<Vec<_>>(),
        "unknown_contained": 0,
    })
}

async fn run_behaviour(fixture: Fixture, c: &Value) -> (Fixture, usize, Vec<Value>) {
    let accts: Vec<u64> = c["accts"].as_array().unwrap().iter().map(|x| x.as_u64().unwrap()).collect();
    let mempool = Mempool::new(fixture.metrics(), c["parked_total"].as_u64().unwrap() as usize, 100);
    let mut run = Run {
        fixture,
        mempool,
        txs: HashMap::new(),
        ids: HashMap::new(),
    };
    let mut mism = vec![];
    let steps = c["steps"].as_array().unwrap();
    for (k, st) in steps.iter().enumerate() {
        let a = &st["a"];
        let op = a["op"].as_str().unwrap();
        match op {
            "insert" => {
                let id = Id::of(&a["id"]);
                let tx = run.tx(id).await;
                let balances: HashMap<IbcPrefixed, u128> =
                    [(asset(), u128::from(a["bal"].as_u64().unwrap()))].into_iter().collect();
                let costs: HashMap<IbcPrefixed, u128> =
                    [(asset(), u128::from(a["cost"].as_u64().unwrap()))].into_iter().collect();
                let r = run.mempool.insert(tx, a["cn"].as_u64().unwrap() as u32, &balances, costs).await;
                let observed = match r {
                    Ok(super::InsertionStatus::AddedToPending) => "AddedToPending".to_string(),
                    Ok(super::InsertionStatus::AddedToParked) => "AddedToParked".to_string(),
                    Err(e) => format!("{e:?}"),
                };
                let expected = a["out"].as_str().unwrap();
                if observed != expected {
                    mism.push(json!({"sig": format!("mempool:insert:outcome:expected={expected}:observed={observed}"),
                                     "detail": {"step": k, "op": a}}));
                    break;
                }
            }
            "remove_invalid" => {
                let tx = run.tx(Id::of(&a["id"])).await;
                run.mempool.remove_tx_invalid(tx, RemovalReason::FailedExecution("verif".to_string())).await;
            }
            "age" => {
                tokio::time::advance(std::time::Duration::from_secs(241)).await;
            }
            "maintain" => {
                let mut state = StateDelta::new(run.fixture.storage().latest_snapshot());
                for (i, acct) in accts.iter().enumerate() {
                    // TLC prints a function over Accts = {1..k} as an array
                    let cn = a["cn"][i].as_u64().unwrap();
                    let bal = a["bal"][i].as_u64().unwrap();
                    state.put_account_nonce(&addr_bytes(*acct), cn as u32).unwrap();
                    state.put_account_balance(&addr_bytes(*acct), &nria(), u128::from(bal)).unwrap();
                }
                state
                    .put_fees(FeeComponents::<Transfer>::new(u128::from(a["fee"].as_u64().unwrap()), 0))
                    .unwrap();
                let mut results = HashMap::new();
                for idv in a["incl"].as_array().unwrap() {
                    let tx = run.tx(Id::of(idv)).await;
                    results.insert(*tx.id(), Arc::new(ExecTxResult::default()));
                }
                run.mempool.run_maintenance(&state, a["recost"].as_bool().unwrap(), results, 7).await;
            }
            other => panic!("unknown op {other}"),
        }
        let got = run.project(&accts).await;
        let want = expected_state(&st["t"]);
        if got != want {
            mism.push(json!({"sig": format!("mempool:{op}:state-differs"),
                             "detail": {"step": k, "op": a, "expected": want, "observed": got}}));
            break;
        }
        // ---- the public observers must tell the same story
        for (id, tx) in &run.txs {
            let status = match run.mempool.transaction_status(tx.id()).await {
                Some(TransactionStatus::Pending) => "pending",
                Some(TransactionStatus::Parked) => "parked",
                Some(TransactionStatus::Removed(_)) => "removed",
                None => "none",
            };
            let ai = accts.iter().position(|x| *x == id.a).unwrap();
            let in_q = |q: &Value| {
                q[ai].as_array().unwrap().iter().any(|x| x["n"] == id.n && x["v"] == id.v && x["c"] == id.c)
            };
            let model = if in_q(&want["pending"]) {
                "pending"
            } else if in_q(&want["parked"]) {
                "parked"
            } else if want["removed"].as_array().unwrap().iter().any(|x| x["id"] == id.json()) {
                "removed"
            } else {
                "none"
            };
            if status != model {
                mism.push(json!({"sig": format!("mempool:{op}:transaction_status:expected={model}:observed={status}"),
                                 "detail": {"step": k, "id": id.json()}}));
            }
        }
        let queue = run.mempool.builder_queue().await;
        let mut seen: HashMap<u64, u64> = HashMap::new();
        let mut count = 0usize;
        for tx in &queue {
            let id = run.ids[tx.id()];
            if let Some(prev) = seen.get(&id.a) {
                if id.n <= *prev {
                    mism.push(json!({"sig": format!("mempool:{op}:builder-queue-nonce-order"), "detail": {"step": k}}));
                }
            }
            seen.insert(id.a, id.n);
            count += 1;
        }
        let pending_total: usize = want["pending"].as_array().unwrap().iter().map(|q| q.as_array().unwrap().len()).sum();
        if count != pending_total {
            mism.push(json!({"sig": format!("mempool:{op}:builder-queue-size"), "detail": {"step": k, "queue": count, "pending": pending_total}}));
        }
        if run.mempool.len().await != want["contained"].as_array().unwrap().len() {
            mism.push(json!({"sig": format!("mempool:{op}:len"), "detail": {"step": k}}));
        }
        for (i, acct) in accts.iter().enumerate() {
            let top = want["pending"][i].as_array().unwrap().iter().map(|x| x["n"].as_u64().unwrap()).max();
            let got = run.mempool.pending_nonce(&addr_bytes(*acct)).await.map(u64::from);
            if got != top.map(|n| n + 1) {
                mism.push(json!({"sig": format!("mempool:{op}:pending_nonce"), "detail": {"step": k, "acct": acct}}));
            }
        }
        if !mism.is_empty() {
            break;
        }
    }
    (run.fixture, steps.len(), mism)
}

#[tokio::test(start_paused = true)]
async fn replay() {
    let cases = io::read_cases();
    let mut out = io::Writer::open();
    // one chain state for the whole process (it is only read); a fresh mempool per behaviour
    let mut fixture = Fixture::default_initialized().await;
    for (k, c) in cases.iter().enumerate() {
        let (f, steps, mism) = run_behaviour(fixture, c).await;
        fixture = f;
        out.put(&json!({"case": k, "steps": steps, "mismatches": mism}));
    }
}
