//! Trace-recording harness for spec/Relayer.tla, compiled into `astria_sequencer_relayer::relayer::write`.
//!
//! `crash_scenarios`: the real `Relayer::run` (reader, submitter, state file) runs against an in-process Celestia app
//! (gRPC: node info, account, params, gas price, BroadcastTx, GetTx), an in-process sequencer (gRPC GetSequencerBlock) and
//! a wiremock CometBFT RPC.  A scenario scripts what Celestia does with each BlobTx (lost / accepted, what the relayer
//! is told, when it is included) and where the relayer process is killed.  A "process" is one tokio runtime with a
//! paused clock; killing it is dropping the runtime, so nothing of the relayer survives but its state file.  Every RPC
//! that reaches Celestia and every write of the state file (hook `state_file_written`, called by
//! `submission::State::write` after the rename) is appended to one event log, which the check validates against the
//! specification with TLC.
#![allow(clippy::all, clippy::pedantic)]
use std::{
    collections::HashMap,
    path::PathBuf,
    sync::{
        Arc,
        Mutex,
        OnceLock,
    },
    time::Duration,
};

use astria_core::{
    generated::{
        astria::sequencerblock::v1::{
            sequencer_service_server::{
                SequencerService,
                SequencerServiceServer,
            },
            FilteredSequencerBlock as RawFilteredSequencerBlock,
            GetFilteredSequencerBlockRequest,
            GetPendingNonceRequest,
            GetPendingNonceResponse,
            GetSequencerBlockRequest,
            SequencerBlock as RawSequencerBlock,
            SubmittedMetadataList,
        },
        celestia::v1::{
            query_server::{
                Query as BlobQueryService,
                QueryServer as BlobQueryServer,
            },
            Params as BlobParams,
            QueryParamsRequest as QueryBlobParamsRequest,
            QueryParamsResponse as QueryBlobParamsResponse,
        },
        cosmos::{
            auth::v1beta1::{
                query_server::{
                    Query as AuthQueryService,
                    QueryServer as AuthQueryServer,
                },
                BaseAccount,
                Params as AuthParams,
                QueryAccountRequest,
                QueryAccountResponse,
                QueryParamsRequest as QueryAuthParamsRequest,
                QueryParamsResponse as QueryAuthParamsResponse,
            },
            base::{
                abci::v1beta1::TxResponse,
                node::v1beta1::{
                    service_server::{
                        Service as MinGasPriceService,
                        ServiceServer as MinGasPriceServer,
                    },
                    ConfigRequest as MinGasPriceRequest,
                    ConfigResponse as MinGasPriceResponse,
                },
                tendermint::v1beta1::{
                    service_server::{
                        Service as NodeInfoService,
                        ServiceServer as NodeInfoServer,
                    },
                    GetNodeInfoRequest,
                    GetNodeInfoResponse,
                },
            },
            tx::v1beta1::{
                service_server::{
                    Service as TxService,
                    ServiceServer as TxServer,
                },
                BroadcastTxRequest,
                BroadcastTxResponse,
                GetTxRequest,
                GetTxResponse,
            },
        },
        sequencerblock::v1::{
            GetUpgradesInfoRequest,
            GetUpgradesInfoResponse,
            GetValidatorNameRequest,
            GetValidatorNameResponse,
        },
        tendermint::{
            p2p::DefaultNodeInfo,
            types::BlobTx,
        },
    },
    primitive::v1::RollupId,
    protocol::test_utils::ConfigureSequencerBlock,
    sequencerblock::v1::block,
};
use prost::{
    Message as _,
    Name as _,
};
use serde_json::{
    json,
    Value,
};
use tonic::{
    Request,
    Response,
    Status,
};

#[path = "/verif/harness/common/io.rs"]
mod io;

const SEQUENCER_CHAIN_ID: &str = "test-sequencer-0";
const CELESTIA_CHAIN_ID: &str = "test-celestia-0";

// ------------------------------------------------------------------------------------------------ the world

#[derive(Default)]
struct TxRec {
    hash: String,
    lo: u64,
    hi: u64,
    st: &'static str, // "pending" | "confirmed" | "lost"
    include: String,  // "polls:k" | "never" | "on_crash" | "on_next_prepare"
    polls: u64,
    height: i64,
}

#[derive(Default)]
struct World {
    events: Vec<Value>,
    head: u64,
    session: u64,
    stop: bool,
    /// time is up for this process: kill it at the next RPC that reaches Celestia (an instant at which no write of
    /// the state file can be under way, so that every write that happened is in the log)
    kill_next: bool,
    last_file: Value,
    stop_reason: Value,
    blob_dir: Option<PathBuf>,
    /// the state file, a hard link to the inode it had at the last observed write, and what that inode held then: a write
    /// that replaces the file (temp file + rename) leaves the old inode as it was; a write in place changes it
    state_path: Option<PathBuf>,
    link_snapshot: String,
    script: Value,
    rpc_counts: HashMap<&'static str, u64>,
    broadcasts: u64,
    txs: Vec<TxRec>,
    celestia_height: i64,
}

fn world() -> &'static Arc<Mutex<World>> {
    static W: OnceLock<Arc<Mutex<World>>> = OnceLock::new();
    W.get_or_init(|| Arc::new(Mutex::new(World::default())))
}

fn file_json(contents: &str) -> Value {
    match serde_json::from_str::<Value>(contents) {
        Ok(v) => {
            let k = v["state"].as_str().unwrap_or("?").to_string();
            json!({
                "k": k,
                "last": v["last_submission"]["sequencer_height"].as_u64().unwrap_or(0),
                "h": v["sequencer_height"].as_u64().unwrap_or(0),
                "tx": v["blob_tx_hash"].as_str().unwrap_or("").to_lowercase(),
            })
        }
        Err(_) => json!({"k": "torn", "last": 0, "h": 0, "tx": ""}),
    }
}

/// Called by `submission::State::write` (cfg(all(test, feature = "verif"))) once the new content is in place.
pub(in crate::relayer) fn state_file_written(contents: &str, ok: bool) {
    let mut w = world().lock().unwrap();
    let f = file_json(contents);
    w.last_file = f.clone();
    let in_place = w.relink();
    w.events.push(json!({"ev": "file", "file": f, "ok": ok, "in_place": in_place}));
}

impl World {
    /// Was the state file's previous inode modified since the link to it was made?  Then links to the current one.
    fn relink(&mut self) -> bool {
        let Some(state) = self.state_path.clone() else {
            return false;
        };
        let link = state.with_extension("link");
        let changed = match std::fs::read_to_string(&link) {
            Ok(now) => now != self.link_snapshot,
            Err(_) => false,
        };
        let _ = std::fs::remove_file(&link);
        let _ = std::fs::hard_link(&state, &link);
        self.link_snapshot = std::fs::read_to_string(&state).unwrap_or_default();
        changed
    }

    /// Counts an RPC of `kind` in this session and tells whether the script kills the relayer here.
    fn crash_here(&mut self, kind: &'static str, phase: &str) -> bool {
        let n = if phase == "before" {
            let c = self.rpc_counts.entry(kind).or_insert(0);
            *c += 1;
            *c
        } else {
            *self.rpc_counts.get(kind).unwrap_or(&0)
        };
        let s = &self.script["sessions"][self.session as usize]["crash"];
        let hit = (s["at"] == kind && s["n"].as_u64() == Some(n) && s["phase"] == phase) || (self.kill_next && phase == "before");
        if hit && !self.stop {
            // the driver kills the process as soon as it sees this; the RPC is never answered
            self.stop = true;
            let why = if self.kill_next { "time-up" } else { "script" };
            self.stop_reason = json!({"at": kind, "phase": phase, "why": why});
        }
        hit
    }

    fn include(&mut self, i: usize) {
        if self.txs[i].st == "pending" {
            self.celestia_height += 1;
            self.txs[i].st = "confirmed";
            self.txs[i].height = self.celestia_height;
            let hash = self.txs[i].hash.clone();
            self.events.push(json!({"ev": "include", "tx": hash}));
        }
    }
}

/// Never answers: the relayer is being killed at this RPC.
async fn withhold<T>() -> Result<Response<T>, Status> {
    std::future::pending::<()>().await;
    unreachable!()
}

// ------------------------------------------------------------------------------------------------ Celestia app

#[derive(Clone)]
struct CelestiaApp;

#[tonic::async_trait]
impl NodeInfoService for CelestiaApp {
    async fn get_node_info(
        self: Arc<Self>,
        _request: Request<GetNodeInfoRequest>,
    ) -> Result<Response<GetNodeInfoResponse>, Status> {
        let kill = world().lock().unwrap().crash_here("nodeinfo", "before");
        if kill {
            return withhold().await;
        }
        Ok(Response::new(GetNodeInfoResponse {
            default_node_info: Some(DefaultNodeInfo {
                network: CELESTIA_CHAIN_ID.to_string(),
                ..Default::default()
            }),
            ..Default::default()
        }))
    }
}

#[tonic::async_trait]
impl AuthQueryService for CelestiaApp {
    async fn account(
        self: Arc<Self>,
        request: Request<QueryAccountRequest>,
    ) -> Result<Response<QueryAccountResponse>, Status> {
        let kill = {
            let mut w = world().lock().unwrap();
            w.events.push(json!({"ev": "rpc_prepare"}));
            // a new attempt to submit begins: the relayer has given up on whatever it was waiting for, and only now
            // does Celestia include that
            for i in 0..w.txs.len() {
                if w.txs[i].include == "on_next_prepare" {
                    w.include(i);
                }
            }
            w.crash_here("prepare", "before")
        };
        if kill {
            return withhold().await;
        }
        // the account's sequence number moves with every included transaction, as on a real chain
        let included = world().lock().unwrap().txs.iter().filter(|t| t.st == "confirmed").count() as u64;
        let account = BaseAccount {
            address: request.into_inner().address,
            pub_key: None,
            account_number: 10,
            sequence: 53 + included,
        };
        Ok(Response::new(QueryAccountResponse {
            account: Some(pbjson_types::Any {
                type_url: BaseAccount::type_url(),
                value: account.encode_to_vec().into(),
            }),
        }))
    }

    async fn params(
        self: Arc<Self>,
        _request: Request<QueryAuthParamsRequest>,
    ) -> Result<Response<QueryAuthParamsResponse>, Status> {
        Ok(Response::new(QueryAuthParamsResponse {
            params: Some(AuthParams {
                max_memo_characters: 256,
                tx_sig_limit: 7,
                tx_size_cost_per_byte: 10,
                sig_verify_cost_ed25519: 590,
                sig_verify_cost_secp256k1: 1000,
            }),
        }))
    }
}

#[tonic::async_trait]
impl BlobQueryService for CelestiaApp {
    async fn params(
        self: Arc<Self>,
        _request: Request<QueryBlobParamsRequest>,
    ) -> Result<Response<QueryBlobParamsResponse>, Status> {
        Ok(Response::new(QueryBlobParamsResponse {
            params: Some(BlobParams {
                gas_per_blob_byte: 8,
                gov_max_square_size: 64,
            }),
        }))
    }
}

#[tonic::async_trait]
impl MinGasPriceService for CelestiaApp {
    async fn config(
        self: Arc<Self>,
        _request: Request<MinGasPriceRequest>,
    ) -> Result<Response<MinGasPriceResponse>, Status> {
        Ok(Response::new(MinGasPriceResponse {
            minimum_gas_price: "0.002000000000000000utia".to_string(),
        }))
    }
}

/// The sequencer heights a BlobTx carries, decoded the way the conductor does: the blob in the sequencer namespace
/// is a brotli-compressed `SubmittedMetadataList`.
fn heights_in(blob_tx: &BlobTx) -> Vec<u64> {
    let ns = astria_core::celestia::namespace_v0_from_sha256_of_bytes(SEQUENCER_CHAIN_ID.as_bytes());
    let mut heights = vec![];
    for blob in &blob_tx.blobs {
        let Ok(blob_ns) = celestia_types::nmt::Namespace::new_v0(blob.namespace_id.as_ref()) else {
            continue;
        };
        if blob_ns != ns {
            continue;
        }
        let Ok(raw) = astria_core::brotli::decompress_bytes(&blob.data) else {
            continue;
        };
        let Ok(list) = SubmittedMetadataList::decode(&*raw) else {
            continue;
        };
        for e in list.entries {
            heights.push(e.header.map_or(0, |h| h.height));
        }
    }
    heights
}

#[tonic::async_trait]
impl TxService for CelestiaApp {
    async fn get_tx(
        self: Arc<Self>,
        request: Request<GetTxRequest>,
    ) -> Result<Response<GetTxResponse>, Status> {
        let hash = request.into_inner().hash.to_lowercase();
        let (kill, confirmed_at, failed_at) = {
            let mut w = world().lock().unwrap();
            let idx = w.txs.iter().position(|t| t.hash == hash);
            if let Some(i) = idx {
                w.txs[i].polls += 1;
                if w.txs[i].include == format!("polls:{}", w.txs[i].polls) {
                    w.include(i);
                }
                // included in a block, but its execution failed: a height together with an error code
                if w.txs[i].include == format!("fail_polls:{}", w.txs[i].polls) && w.txs[i].st == "pending" {
                    w.celestia_height += 1;
                    w.txs[i].st = "failed";
                    w.txs[i].height = w.celestia_height;
                    let hash = w.txs[i].hash.clone();
                    w.events.push(json!({"ev": "fail", "tx": hash}));
                }
            }
            let confirmed_at = idx.filter(|&i| w.txs[i].st == "confirmed").map(|i| w.txs[i].height);
            let failed_at = idx.filter(|&i| w.txs[i].st == "failed").map(|i| w.txs[i].height);
            let ans = if confirmed_at.is_some() { "confirmed" } else if failed_at.is_some() { "failed" } else { "pending" };
            w.events.push(json!({"ev": "gettx", "tx": hash, "ans": ans}));
            (w.crash_here("gettx", "before"), confirmed_at, failed_at)
        };
        if kill {
            return withhold().await;
        }
        if let Some(height) = failed_at {
            return Ok(Response::new(GetTxResponse {
                tx: None,
                tx_response: Some(TxResponse {
                    height,
                    txhash: hash,
                    code: 11,
                    codespace: "sdk".to_string(),
                    raw_log: "out of gas".to_string(),
                    ..TxResponse::default()
                }),
            }));
        }
        let Some(height) = confirmed_at else {
            return Err(Status::not_found("tx not found"));
        };
        Ok(Response::new(GetTxResponse {
            tx: None,
            tx_response: Some(TxResponse {
                height,
                txhash: hash,
                code: 0,
                ..TxResponse::default()
            }),
        }))
    }

    async fn broadcast_tx(
        self: Arc<Self>,
        request: Request<BroadcastTxRequest>,
    ) -> Result<Response<BroadcastTxResponse>, Status> {
        let req = request.into_inner();
        let blob_tx = BlobTx::decode(req.tx_bytes.as_ref()).map_err(|_| Status::invalid_argument("not a BlobTx"))?;
        let hash = super::BlobTxHash::compute(&blob_tx).to_hex().to_lowercase();
        let base = world().lock().unwrap().script["base"].as_u64().unwrap_or(0);
        let heights: Vec<u64> = heights_in(&blob_tx).into_iter().map(|h| h.saturating_sub(base)).collect();
        let compressed: usize = blob_tx.blobs.iter().map(|b| b.data.len()).sum();
        let lo = heights.first().copied().unwrap_or(0);
        let hi = heights.last().copied().unwrap_or(0);
        let contiguous = !heights.is_empty() && heights.windows(2).all(|p| p[1] == p[0] + 1);
        let (kill, told) = {
            let mut w = world().lock().unwrap();
            if w.crash_here("broadcast", "before") {
                // killed before the transaction left the process
                (true, String::new())
            } else {
                let n = w.broadcasts as usize;
                w.broadcasts += 1;
                let spec = w.script["broadcasts"].get(n).cloned().unwrap_or(Value::Null);
                let delivered = spec["delivered"].as_bool().unwrap_or(true);
                let told = spec["told"].as_str().unwrap_or("ok").to_string();
                let include = spec["include"].as_str().unwrap_or("polls:1").to_string();
                // the same bytes again (a retry on an unchanged account): Celestia knows the transaction already
                if let Some(i) = w.txs.iter().position(|t| t.hash == hash) {
                    if delivered && w.txs[i].st == "lost" {
                        w.txs[i].st = "pending";
                        w.txs[i].include = include;
                        w.txs[i].polls = 0;
                    }
                } else {
                    w.txs.push(TxRec {
                        hash: hash.clone(),
                        lo,
                        hi,
                        st: if delivered { "pending" } else { "lost" },
                        include,
                        polls: 0,
                        height: 0,
                    });
                }
                let mut blobs = vec![];
                if w.script["record_blobs"].as_bool().unwrap_or(false) {
                    if let Some(dir) = w.blob_dir.clone() {
                        for (k, b) in blob_tx.blobs.iter().enumerate() {
                            let f = dir.join(format!("case{}-sub{}-blob{}.bin", w.script["id"], n, k));
                            std::fs::write(&f, &b.data).unwrap();
                            blobs.push(json!({"ns": hex::encode(&b.namespace_id), "file": f.display().to_string(),
                                              "len": b.data.len()}));
                        }
                    }
                }
                w.events.push(json!({"ev": "broadcast", "tx": hash, "lo": lo, "hi": hi, "contiguous": contiguous,
                                     "heights": heights, "delivered": delivered, "told": told,
                                     "compressed_bytes": compressed, "blobs": blobs}));
                (w.crash_here("broadcast", "after"), told)
            }
        };
        if kill {
            return withhold().await;
        }
        match told.as_str() {
            "ok" => Ok(Response::new(BroadcastTxResponse {
                tx_response: Some(TxResponse {
                    txhash: hash,
                    code: 0,
                    ..TxResponse::default()
                }),
            })),
            // what the relayer takes for a timed-out request
            "timeout" => Err(Status::cancelled("Timeout expired")),
            _ => Err(Status::unavailable("connection reset")),
        }
    }
}

// ------------------------------------------------------------------------------------------------ sequencer

fn rollup_id_n(i: u64) -> RollupId {
    RollupId::new([i as u8; 32])
}

/// Deterministic, incompressible bytes.
fn noise(seed: u64, len: usize) -> Vec<u8> {
    let mut x = seed.wrapping_mul(0x9E37_79B9_7F4A_7C15) | 1;
    let mut out = Vec::with_capacity(len + 8);
    while out.len() < len {
        x ^= x << 13;
        x ^= x >> 7;
        x ^= x << 17;
        out.extend_from_slice(&x.to_le_bytes());
    }
    out.truncate(len);
    out
}

/// The block at model height `h`: what `script.blocks[h]` says ([[rollup, bytes], ..]; several entries may name the
/// same rollup), or one small entry for rollup 7.  The chain height is `script.base + h`.
fn make_block(script: &Value, h: u64) -> astria_core::sequencerblock::v1::SequencerBlock {
    let base = script["base"].as_u64().unwrap_or(0);
    let mut data = vec![];
    match script["blocks"].get(h.to_string()).and_then(Value::as_array) {
        Some(entries) => {
            for (k, e) in entries.iter().enumerate() {
                let r = e[0].as_u64().unwrap();
                let n = e[1].as_u64().unwrap() as usize;
                data.push((rollup_id_n(r), noise(h * 1000 + k as u64, n)));
            }
        }
        None => data.push((rollup_id_n(7), format!("tx-{h}").into_bytes())),
    }
    ConfigureSequencerBlock {
        block_hash: Some(block::Hash::new([(base + h) as u8; 32])),
        chain_id: Some(SEQUENCER_CHAIN_ID.to_string()),
        height: (base + h) as u32,
        sequence_data: data,
        unix_timestamp: (1i64, 1u32).into(),
        ..Default::default()
    }
    .make()
}

fn sequencer_block(h_chain: u64) -> RawSequencerBlock {
    let script = world().lock().unwrap().script.clone();
    let base = script["base"].as_u64().unwrap_or(0);
    make_block(&script, h_chain - base).into_raw()
}

fn sha256_hex(bytes: &[u8]) -> String {
    use sha2::Digest as _;
    hex::encode(sha2::Sha256::digest(bytes))
}

struct Sequencer;

#[tonic::async_trait]
impl SequencerService for Sequencer {
    async fn get_sequencer_block(
        self: Arc<Self>,
        request: Request<GetSequencerBlockRequest>,
    ) -> Result<Response<RawSequencerBlock>, Status> {
        let h = request.into_inner().height;
        let (head, base) = {
            let w = world().lock().unwrap();
            (w.head, w.script["base"].as_u64().unwrap_or(0))
        };
        if h <= base || h > base + head {
            return Err(Status::not_found("no such block"));
        }
        Ok(Response::new(sequencer_block(h)))
    }

    async fn get_filtered_sequencer_block(
        self: Arc<Self>,
        _request: Request<GetFilteredSequencerBlockRequest>,
    ) -> Result<Response<RawFilteredSequencerBlock>, Status> {
        Err(Status::unimplemented("not used"))
    }

    async fn get_pending_nonce(
        self: Arc<Self>,
        _request: Request<GetPendingNonceRequest>,
    ) -> Result<Response<GetPendingNonceResponse>, Status> {
        Err(Status::unimplemented("not used"))
    }

    async fn get_upgrades_info(
        self: Arc<Self>,
        _request: Request<GetUpgradesInfoRequest>,
    ) -> Result<Response<GetUpgradesInfoResponse>, Status> {
        Err(Status::unimplemented("not used"))
    }

    async fn get_validator_name(
        self: Arc<Self>,
        _request: Request<GetValidatorNameRequest>,
    ) -> Result<Response<GetValidatorNameResponse>, Status> {
        Err(Status::unimplemented("not used"))
    }
}

const STATUS_RESPONSE: &str = r#"
{
  "node_info": {
    "protocol_version": { "p2p": "8", "block": "11", "app": "0" },
    "id": "a1d3bbddb7800c6da2e64169fec281494e963ba3",
    "listen_addr": "tcp://0.0.0.0:26656",
    "network": "test-sequencer-0",
    "version": "0.38.6",
    "channels": "40202122233038606100",
    "moniker": "fullnode",
    "other": { "tx_index": "on", "rpc_address": "tcp://0.0.0.0:26657" }
  },
  "sync_info": {
    "latest_block_hash": "A4202E4E367712AC2A797860265A7EBEA8A3ACE513CB0105C2C9058449641202",
    "latest_app_hash": "BCC9C9B82A49EC37AADA41D32B4FBECD2441563703955413195BDA2236775A68",
    "latest_block_height": "452605",
    "latest_block_time": "2024-05-09T15:59:17.849713071Z",
    "earliest_block_hash": "C34B7B0B82423554B844F444044D7D08A026D6E413E6F72848DB2F8C77ACE165",
    "earliest_app_hash": "6B776065775471CEF46AC75DE09A4B869A0E0EB1D7725A04A342C0E46C16F472",
    "earliest_block_height": "1",
    "earliest_block_time": "2024-04-23T00:49:11.964127Z",
    "catching_up": false
  },
  "validator_info": {
    "address": "0B46F33BA2FA5C2E2AD4C4C4E5ECE3F1CA03D195",
    "pub_key": { "type": "tendermint/PubKeyEd25519", "value": "bA6GipHUijVuiYhv+4XymdePBsn8EeTqjGqNQrBGZ4I=" },
    "voting_power": "0"
  }
}"#;

/// CometBFT JSON-RPC: `status` (chain id) and `abci_info` (the chain's head).
struct CometBft;

impl wiremock::Respond for CometBft {
    fn respond(&self, request: &wiremock::Request) -> wiremock::ResponseTemplate {
        use tendermint_rpc::{
            endpoint::{
                abci_info,
                status,
            },
            response::Wrapper,
            Id,
        };
        let body: Value = serde_json::from_slice(&request.body).unwrap_or(Value::Null);
        let id = match &body["id"] {
            Value::String(s) => Id::Str(s.clone()),
            Value::Number(n) => Id::Num(n.as_i64().unwrap_or(1)),
            _ => Id::Num(1),
        };
        match body["method"].as_str() {
            Some("status") => {
                let resp: status::Response = serde_json::from_str(STATUS_RESPONSE).unwrap();
                wiremock::ResponseTemplate::new(200).set_body_json(Wrapper::new_with_id(id, Some(resp), None))
            }
            Some("abci_info") => {
                let head = {
                    let w = world().lock().unwrap();
                    w.head + w.script["base"].as_u64().unwrap_or(0)
                };
                let resp = abci_info::Response {
                    response: tendermint::abci::response::Info {
                        data: "verif".into(),
                        version: "1.0.0".into(),
                        app_version: 1,
                        last_block_height: (head as u32).into(),
                        last_block_app_hash: tendermint::hash::AppHash::try_from([0; 32].to_vec()).unwrap(),
                    },
                };
                wiremock::ResponseTemplate::new(200).set_body_json(Wrapper::new_with_id(id, Some(resp), None))
            }
            _ => wiremock::ResponseTemplate::new(404),
        }
    }
}

struct Servers {
    celestia: String,
    sequencer: String,
    cometbft: String,
}

/// The three fake services live on their own thread and runtime (real time): they outlive every relayer process.
fn spawn_servers() -> Servers {
    let (tx, rx) = std::sync::mpsc::channel();
    std::thread::spawn(move || {
        let rt = tokio::runtime::Builder::new_multi_thread().worker_threads(2).enable_all().build().unwrap();
        rt.block_on(async move {
            use tokio_stream::wrappers::TcpListenerStream;
            let nodelay = |l: tokio::net::TcpListener| {
                tokio_stream::StreamExt::map(TcpListenerStream::new(l), |s| {
                    s.map(|s| {
                        let _ = s.set_nodelay(true);
                        s
                    })
                })
            };
            let l1 = tokio::net::TcpListener::bind("127.0.0.1:0").await.unwrap();
            let celestia = format!("http://{}", l1.local_addr().unwrap());
            tokio::spawn(async move {
                tonic::transport::Server::builder()
                    .add_service(NodeInfoServer::new(CelestiaApp))
                    .add_service(AuthQueryServer::new(CelestiaApp))
                    .add_service(BlobQueryServer::new(CelestiaApp))
                    .add_service(MinGasPriceServer::new(CelestiaApp))
                    .add_service(TxServer::new(CelestiaApp))
                    .serve_with_incoming(nodelay(l1))
                    .await
                    .unwrap();
            });
            let l2 = tokio::net::TcpListener::bind("127.0.0.1:0").await.unwrap();
            let sequencer = format!("http://{}", l2.local_addr().unwrap());
            tokio::spawn(async move {
                tonic::transport::Server::builder()
                    .add_service(SequencerServiceServer::new(Sequencer))
                    .serve_with_incoming(nodelay(l2))
                    .await
                    .unwrap();
            });
            let comet = wiremock::MockServer::start().await;
            wiremock::Mock::given(wiremock::matchers::any()).respond_with(CometBft).mount(&comet).await;
            tx.send(Servers {
                celestia,
                sequencer,
                cometbft: comet.uri(),
            })
            .unwrap();
            std::future::pending::<()>().await;
        });
    });
    rx.recv().unwrap()
}

// ------------------------------------------------------------------------------------------------ the relayer process

fn metrics() -> &'static crate::metrics::Metrics {
    static M: OnceLock<&'static crate::metrics::Metrics> = OnceLock::new();
    M.get_or_init(|| {
        let m = <crate::metrics::Metrics as telemetry::Metrics>::noop_metrics(&()).unwrap();
        Box::leak(Box::new(m))
    })
}

/// One life of the relayer process: from start until the script kills it, it has relayed everything, or (virtual)
/// time is up.
fn run_session(servers: &Servers, dir: &PathBuf, limit_virtual_secs: u64) -> String {
    let state_path = dir.join("submission-state.json");
    let key_path = dir.join("celestia.key");
    let rt = tokio::runtime::Builder::new_current_thread().enable_all().start_paused(true).build().unwrap();
    let outcome = rt.block_on(async {
        let relayer = super::super::Builder {
            relayer_shutdown_token: tokio_util::sync::CancellationToken::new(),
            sequencer_chain_id: SEQUENCER_CHAIN_ID.to_string(),
            celestia_chain_id: CELESTIA_CHAIN_ID.to_string(),
            celestia_default_min_gas_price: 0.002,
            celestia_app_grpc_endpoint: servers.celestia.clone(),
            celestia_app_key_file: key_path.display().to_string(),
            cometbft_endpoint: servers.cometbft.clone(),
            sequencer_poll_period: Duration::from_millis(500),
            sequencer_grpc_endpoint: servers.sequencer.clone(),
            rollup_filter: {
                use base64::Engine as _;
                let script = world().lock().unwrap().script.clone();
                let ids: Vec<String> = script["filter"]
                    .as_array()
                    .map(|a| {
                        a.iter()
                            .map(|i| base64::engine::general_purpose::STANDARD.encode(rollup_id_n(i.as_u64().unwrap()).as_bytes()))
                            .collect()
                    })
                    .unwrap_or_default();
                crate::IncludeRollup::parse(&ids.join(",")).unwrap()
            },
            submission_state_path: state_path.clone(),
            metrics: metrics(),
        }
        .build()
        .unwrap();
        let handle = tokio::spawn(relayer.run());
        let start = tokio::time::Instant::now();
        loop {
            for _ in 0..32 {
                tokio::task::yield_now().await;
            }
            // real time for the loopback round trips; the virtual clock runs ~300x faster than the wall clock
            std::thread::sleep(Duration::from_micros(300));
            tokio::time::advance(Duration::from_millis(100)).await;
            if world().lock().unwrap().stop {
                break "killed".to_string();
            }
            if handle.is_finished() {
                break match handle.await {
                    Ok(Ok(())) => "exited".to_string(),
                    Ok(Err(e)) => format!("exited with error: {e:#}"),
                    Err(e) => format!("panicked: {e}"),
                };
            }
            // everything relayed and recorded (the write is in the log, nothing is left to submit): stop here
            {
                let mut w = world().lock().unwrap();
                let base = w.script["base"].as_u64().unwrap_or(0);
                if w.last_file["k"] == "started" && w.last_file["last"].as_u64() == Some(w.head + base) {
                    break "done".to_string();
                }
                if start.elapsed() > Duration::from_secs(limit_virtual_secs) {
                    w.kill_next = true;
                }
            }
            // no RPC for another while after time was up: the relayer is idle
            if start.elapsed() > Duration::from_secs(limit_virtual_secs + 40) {
                break "time-up-idle".to_string();
            }
        }
    });
    // the process dies: every task of it is dropped with the runtime
    drop(rt);
    outcome
}

#[test]
fn crash_scenarios() {
    let cases = io::read_cases();
    let mut out = io::Writer::open();
    let servers = spawn_servers();
    let base = PathBuf::from(std::env::var("VERIF_OUT").unwrap()).with_extension("dir");
    for c in &cases {
        let dir = base.join(format!("case-{}", c["id"]));
        let _ = std::fs::remove_dir_all(&dir);
        std::fs::create_dir_all(&dir).unwrap();
        let state_path = dir.join("submission-state.json");
        // a chain whose first relayed height is base + 1: the relayer is told that everything up to base is on Celestia
        match c["base"].as_u64().unwrap_or(0) {
            0 => std::fs::write(&state_path, r#"{"state": "fresh"}"#).unwrap(),
            base => std::fs::write(
                &state_path,
                format!(r#"{{"state": "started", "last_submission": {{"celestia_height": 1, "sequencer_height": {base}}}}}"#),
            )
            .unwrap(),
        }
        std::fs::write(
            dir.join("celestia.key"),
            "c8076374e2a4a58db1c924e3dafc055e9685481054fe99e58ed67f5c6ed80e62",
        )
        .unwrap();
        let blob_dir = base.with_extension("blobs");
        {
            let mut w = world().lock().unwrap();
            *w = World::default();
            w.script = c.clone();
            w.head = c["head"].as_u64().unwrap();
            if c["record_blobs"].as_bool().unwrap_or(false) {
                std::fs::create_dir_all(&blob_dir).unwrap();
                w.blob_dir = Some(blob_dir.clone());
            }
        }
        let n_sessions = c["sessions"].as_array().unwrap().len();
        let mut outcomes = vec![];
        for s in 0..n_sessions {
            let sess = &c["sessions"][s];
            {
                let mut w = world().lock().unwrap();
                w.session = s as u64;
                w.stop = false;
                w.kill_next = false;
                w.rpc_counts.clear();
                if let Some(h) = sess["head"].as_u64() {
                    w.head = h;
                }
                // what a crash between writing the temp file and renaming it leaves behind
                if sess["tmp_garbage"].as_bool().unwrap_or(false) {
                    std::fs::write(dir.join("submission-state.json.tmp"), "{\"state\": \"prep").unwrap();
                }
                let contents = std::fs::read_to_string(&state_path).unwrap_or_default();
                w.state_path = Some(state_path.clone());
                w.relink();
                w.last_file = file_json(&contents);
                w.events.push(json!({"ev": "boot", "s": s, "file": file_json(&contents)}));
            }
            let limit = sess["limit_secs"].as_u64().unwrap_or(200);
            let outcome = run_session(&servers, &dir, limit);
            {
                // the process is gone.  A write whose rename completed but whose task was never polled again has no
                // event yet: it did happen before the kill, so it is logged before the crash.
                let mut w = world().lock().unwrap();
                let now = file_json(&std::fs::read_to_string(&state_path).unwrap_or_default());
                if now != w.last_file {
                    w.last_file = now.clone();
                    let in_place = w.relink();
                    w.events.push(json!({"ev": "file", "file": now, "ok": true, "seen_after_kill": true, "in_place": in_place}));
                }
                let reason = if w.stop { w.stop_reason.clone() } else { json!({"at": outcome.clone()}) };
                w.stop = true;
                w.events.push(json!({"ev": "crash", "s": s, "reason": reason}));
                // Celestia goes on after the relayer is gone
                for i in 0..w.txs.len() {
                    if w.txs[i].st == "pending" && w.txs[i].include == "on_crash" {
                        w.include(i);
                    }
                }
            }
            outcomes.push(outcome);
        }
        // what the blocks handed to the relayer contain: per block and rollup the digests of its data items, and the
        // rollup ids the block lists
        let mut expected = vec![];
        if c["record_blobs"].as_bool().unwrap_or(false) {
            let final_head = world().lock().unwrap().head;
            for h in 1..=final_head {
                let blk = make_block(c, h);
                let mut rollups = serde_json::Map::new();
                for (rid, txs) in blk.rollup_transactions() {
                    rollups.insert(
                        hex::encode(rid.as_bytes()),
                        json!(txs.transactions().iter().map(|t| sha256_hex(t)).collect::<Vec<_>>()),
                    );
                }
                expected.push(json!({"h": h, "chain_height": blk.height().value(), "hash": hex::encode(blk.block_hash().as_bytes()),
                                     "rollups": rollups}));
            }
        }
        let w = world().lock().unwrap();
        let contents = std::fs::read_to_string(&state_path).unwrap_or_default();
        out.put(&json!({
            "i": c["id"],
            "expected_blocks": expected,
            "events": w.events,
            "outcomes": outcomes,
            "final_file": file_json(&contents),
            "txs": w.txs.iter().map(|t| json!({"tx": t.hash, "lo": t.lo, "hi": t.hi, "st": t.st})).collect::<Vec<_>>(),
        }));
        drop(w);
        let _ = std::fs::remove_dir_all(&dir);
    }
    let _ = std::fs::remove_dir_all(&base);
}
