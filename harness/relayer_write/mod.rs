//! verif harness entry for relayer_write (compiled into the repo crate under cfg(all(test, feature = "verif"))).
#[test]
fn smoke() {}
