//! S->I replay harness for spec/Composer.tla, compiled into
//! `astria_composer::executor::bundle_factory` (so that it can project the private state).
//!
//! VERIF_IN: one JSON behaviour per line:
//!   {"max": units, "cap": n, "unit": bytes, "steps": [{"a": {"op","arg","out"}, "t": {...}, "handed": [...]}, ...]}
//! VERIF_OUT: {"case": k, "steps": n, "mismatches": [{"sig","detail"}]}
use std::{
    io::{
        BufRead as _,
        Write as _,
    },
    panic::{
        catch_unwind,
        AssertUnwindSafe,
    },
};

use astria_core::{
    primitive::v1::RollupId,
    protocol::transaction::v1::{
        action::RollupDataSubmission,
        Action,
    },
};
use serde_json::{
    json,
    Value,
};

use super::{
    encoded_len,
    BundleFactory,
    BundleFactoryError,
    SizedBundle,
};

/// Builds the `id`-th item whose encoded length, once the factory has ibc-prefixed its fee asset, is exactly `target`
/// bytes.  The item itself is handed over as a client sends it: with the fee asset spelled `nria` (the normalisation
/// is the factory's business).  The first 8 payload bytes carry the id.
fn item(id: u64, target: usize) -> RollupDataSubmission {
    let mk = |len: usize| {
        let mut data = vec![0xabu8; len.max(8)];
        data[..8].copy_from_slice(&id.to_le_bytes());
        RollupDataSubmission {
            rollup_id: RollupId::new([(id % 3) as u8; 32]),
            data: data.into(),
            fee_asset: "nria".parse().unwrap(),
        }
    };
    let mut len = target.saturating_sub(120).max(8);
    for _ in 0..400 {
        let it = mk(len);
        let got = encoded_len(&super::with_ibc_prefixed(it.clone()));
        if got == target {
            return it;
        }
        if got < target {
            len += target - got;
        } else {
            len -= (got - target).min(len - 8);
        }
    }
    panic!("cannot build an item of encoded length {target}");
}

fn bundle_items(b: &SizedBundle, unit: usize) -> Value {
    let v: Vec<Value> = b
        .buffer
        .iter()
        .map(|a| {
            let Action::RollupDataSubmission(r) = a else {
                return json!("non-rollup-data action");
            };
            let id = u64::from_le_bytes(r.data[..8].try_into().unwrap());
            let len = encoded_len(r);
            if len % unit == 0 {
                json!([id, len / unit])
            } else {
                json!([id, format!("{len} bytes")])
            }
        })
        .collect();
    Value::Array(v)
}

fn project(f: &BundleFactory, n: u64, unit: usize) -> Value {
    json!({
        "curr": bundle_items(&f.curr_bundle, unit),
        "finished": f.finished.iter().map(|b| bundle_items(b, unit)).collect::<Vec<_>>(),
        "n": n,
    })
}

/// internal consistency of a bundle the factory holds or hands out
fn bundle_ok(b: &SizedBundle, max: usize) -> Option<String> {
    let real: usize = b
        .buffer
        .iter()
        .map(|a| match a {
            Action::RollupDataSubmission(r) => encoded_len(r),
            _ => 0,
        })
        .sum();
    if real != b.get_size() {
        return Some(format!("curr_size {} != sum of encoded lengths {real}", b.get_size()));
    }
    if real > max {
        return Some(format!("bundle of {real} bytes exceeds max {max}"));
    }
    if b.actions_count() != b.buffer.len() || b.is_empty() != b.buffer.is_empty() {
        return Some("actions_count/is_empty inconsistent".into());
    }
    let counted: usize = b.rollup_counts.values().sum();
    if counted != b.buffer.len() {
        return Some("rollup_counts inconsistent".into());
    }
    if !b.is_empty() {
        // the executor turns every bundle into a transaction body; this must not panic
        if catch_unwind(AssertUnwindSafe(|| b.to_transaction_body(1, "test"))).is_err() {
            return Some("to_transaction_body panicked".into());
        }
    }
    None
}

fn run_behaviour(c: &Value) -> (usize, Vec<Value>) {
    let unit = c["unit"].as_u64().unwrap() as usize;
    let max = c["max"].as_u64().unwrap() as usize * unit;
    let cap = c["cap"].as_u64().unwrap() as usize;
    let mut f = BundleFactory::new(max, cap);
    let mut n = 0u64;
    let mut mism = Vec::new();
    let steps = c["steps"].as_array().unwrap();
    for (k, st) in steps.iter().enumerate() {
        let a = &st["a"];
        let op = a["op"].as_str().unwrap();
        let mut handed: Option<SizedBundle> = None;
        let out: String = match op {
            "push" => {
                n += 1;
                let it = item(n, a["arg"].as_u64().unwrap() as usize * unit);
                match catch_unwind(AssertUnwindSafe(|| f.try_push(it))) {
                    Err(_) => "panic".into(),
                    Ok(Ok(())) => "ok".into(),
                    Ok(Err(BundleFactoryError::SequenceActionTooLarge {
                        ..
                    })) => "too_large".into(),
                    Ok(Err(BundleFactoryError::FinishedQueueFull(_))) => "queue_full".into(),
                }
            }
            "next_finished" => match f.next_finished() {
                None => "none".into(),
                Some(nf) => {
                    handed = Some(nf.pop());
                    "some".into()
                }
            },
            "pop_now" => {
                handed = Some(f.pop_now());
                "ok".into()
            }
            other => panic!("unknown op {other}"),
        };
        let exp_out = a["out"].as_str().unwrap();
        if out != exp_out {
            mism.push(json!({"sig": format!("composer:{op}:outcome:expected={exp_out}:observed={out}"),
                             "detail": {"step": k, "arg": a["arg"]}}));
            break;
        }
        let got_handed = handed.as_ref().map_or(json!([]), |b| bundle_items(b, unit));
        if got_handed != st["handed"] {
            mism.push(json!({"sig": format!("composer:{op}:handed-out-bundle-differs"),
                             "detail": {"step": k, "expected": st["handed"], "observed": got_handed}}));
            break;
        }
        let got = project(&f, n, unit);
        if got != st["t"] {
            mism.push(json!({"sig": format!("composer:{op}:state-differs"),
                             "detail": {"step": k, "expected": st["t"], "observed": got}}));
            break;
        }
        let expect_full = st["t"]["finished"].as_array().unwrap().len() >= cap;
        if f.is_full() != expect_full {
            mism.push(json!({"sig": "composer:is_full-differs", "detail": {"step": k}}));
            break;
        }
        for b in handed.iter().chain(f.finished.iter()).chain(std::iter::once(&f.curr_bundle)) {
            if let Some(e) = bundle_ok(b, max) {
                mism.push(json!({"sig": format!("composer:bundle-inconsistent"), "detail": {"step": k, "why": e}}));
            }
        }
        if !mism.is_empty() {
            break;
        }
    }
    (steps.len(), mism)
}

#[test]
fn replay() {
    let inp = std::env::var("VERIF_IN").expect("VERIF_IN");
    let outp = std::env::var("VERIF_OUT").expect("VERIF_OUT");
    let rd = std::io::BufReader::new(std::fs::File::open(inp).unwrap());
    let mut wr = std::io::BufWriter::new(std::fs::File::create(outp).unwrap());
    for (k, line) in rd.lines().enumerate() {
        let line = line.unwrap();
        if line.trim().is_empty() {
            continue;
        }
        let c: Value = serde_json::from_str(&line).unwrap();
        let (steps, mism) = run_behaviour(&c);
        writeln!(wr, "{}", json!({"case": k, "steps": steps, "mismatches": mism})).unwrap();
    }
    wr.flush().unwrap();
}
