//! S->I replay of spec/Oracle.tla cases on the real `ProposalHandler::validate_proposal` (real ed25519 signatures over
//! the real CanonicalVoteExtension bytes) and on `calculate_prices_from_vote_extensions` (median).
use std::collections::{
    BTreeMap,
    HashMap,
};

use astria_core::{
    crypto::SigningKey,
    generated::price_feed::abci::v2::OracleVoteExtension as RawOracleVoteExtension,
    oracles::price_feed::types::v2::Price,
    protocol::price_feed::v1::ExtendedCommitInfoWithCurrencyPairMapping,
};
use prost::Message as _;
use serde_json::{
    json,
    Value,
};
use tendermint::{
    abci::types::{
        BlockSignatureInfo,
        CommitInfo,
        ExtendedCommitInfo,
        ExtendedVoteInfo,
        Validator,
        VoteInfo,
    },
    block::BlockIdFlag,
};
use tendermint_proto::types::CanonicalVoteExtension;

use super::{
    super::vote_extension::ProposalHandler,
    io,
};
use crate::test_utils::Fixture;

fn vkey(i: u64) -> SigningKey {
    let mut seed = [0x66u8; 32];
    seed[0] = i as u8;
    SigningKey::from(seed)
}

fn ext_bytes(prices: &[(u64, Vec<u8>)]) -> Vec<u8> {
    let mut map = BTreeMap::new();
    for (id, p) in prices {
        map.insert(*id, p.clone().into());
    }
    RawOracleVoteExtension {
        prices: map,
    }
    .encode_to_vec()
}

fn price_bytes(p: i128) -> Vec<u8> {
    Price::new(p).get().to_be_bytes().to_vec()
}

fn sign(signer: &SigningKey, ext: &[u8], height: u64, round: u16) -> tendermint::Signature {
    let msg = CanonicalVoteExtension {
        extension: ext.to_vec(),
        height: i64::try_from(height).unwrap() - 1,
        round: i64::from(round),
        chain_id: "test".to_string(),
    }
    .encode_length_delimited_to_vec();
    signer.sign(&msg).to_bytes().to_vec().try_into().unwrap()
}

fn validator(v: u64, power: u64) -> Validator {
    Validator {
        address: *vkey(v).verification_key().address_bytes(),
        power: u32::try_from(power).unwrap().into(),
    }
}

fn vote(v: u64, power: u64, kind: &str, height: u64, round: u16, price: i128) -> ExtendedVoteInfo {
    let normal = ext_bytes(&[(1, price_bytes(price))]);
    let (flag, ext, sig): (BlockIdFlag, Vec<u8>, Option<tendermint::Signature>) = match kind {
        "absent" => (BlockIdFlag::Absent, vec![], None),
        "nil" => (BlockIdFlag::Nil, vec![], None),
        "ok" => (BlockIdFlag::Commit, normal.clone(), Some(sign(&vkey(v), &normal, height, round))),
        "empty" => (BlockIdFlag::Commit, vec![], Some(sign(&vkey(v), &[], height, round))),
        // an empty extension carries no price, but its signature is what makes the validator's power count
        "emptyforged" => (BlockIdFlag::Commit, vec![], Some(sign(&vkey(v + 100), &[], height, round))),
        "forged" => (BlockIdFlag::Commit, normal.clone(), Some(sign(&vkey(v + 100), &normal, height, round))),
        "other" => (BlockIdFlag::Commit, normal.clone(), Some(sign(&vkey(v % 3 + 1), &normal, height, round))),
        "nosig" => (BlockIdFlag::Commit, normal.clone(), None),
        "longprice" => {
            let e = ext_bytes(&[(1, vec![1u8; 34])]);
            (BlockIdFlag::Commit, e.clone(), Some(sign(&vkey(v), &e, height, round)))
        }
        "toomany" => {
            let many: Vec<(u64, Vec<u8>)> = (1..=40).map(|i| (i, price_bytes(1))).collect();
            let e = ext_bytes(&many);
            (BlockIdFlag::Commit, e.clone(), Some(sign(&vkey(v), &e, height, round)))
        }
        "nilext" => (BlockIdFlag::Nil, normal.clone(), None),
        "nilsig" => (BlockIdFlag::Nil, vec![], Some(sign(&vkey(v), &[], height, round))),
        other => panic!("unknown vote kind {other}"),
    };
    ExtendedVoteInfo {
        validator: validator(v, power),
        sig_info: BlockSignatureInfo::Flag(flag),
        vote_extension: ext.into(),
        extension_signature: sig,
    }
}

#[tokio::test]
async fn oracle_cases() {
    let cases = io::read_cases();
    let mut out = io::Writer::open();
    let mut fixture = Fixture::uninitialized(None).await;
    fixture
        .chain_initializer()
        .with_genesis_validators((1..=4u64).map(|i| (vkey(i).verification_key(), 1u32)))
        .init()
        .await;
    let next = fixture.run_until_blackburn_applied().await;
    let height = next.value();
    let round = 0u16;
    // the id -> currency pair mapping a proposer attaches: obtained from the code's own prepare_proposal on a fully
    // honest extended commit (it depends only on the ids, always {1} in acceptable extensions)
    let honest = ExtendedCommitInfo {
        round: round.into(),
        votes: (1..=4u64).map(|v| vote(v, 1, "ok", height, round, 7)).collect(),
    };
    let mapping = ProposalHandler::prepare_proposal(fixture.state(), height, honest)
        .await
        .expect("honest extended commit is proposable")
        .id_to_currency_pair;

    for (k, c) in cases.iter().enumerate() {
        let mut mism = vec![];
        let part = c["part"].as_str().unwrap();
        if part == "median" {
            let prices: Vec<i128> = c["prices"].as_array().unwrap().iter().map(|p| i128::from(p.as_i64().unwrap())).collect();
            for scale in [1i128, (i128::MAX / 3) - 1] {
                let eci = ExtendedCommitInfo {
                    round: round.into(),
                    votes: prices
                        .iter()
                        .enumerate()
                        .map(|(i, p)| vote(i as u64 % 4 + 1, 1, "ok", height, round, p * scale))
                        .collect(),
                };
                let r = std::panic::catch_unwind(|| {
                    astria_core::oracles::price_feed::utils::calculate_prices_from_vote_extensions(&eci, &mapping)
                });
                match r {
                    Err(_) => mism.push(json!({"sig": "oracle:median:panic", "detail": {"prices": c["prices"], "scale": scale.to_string()}})),
                    Ok(Err(e)) => mism.push(json!({"sig": "oracle:median:error", "detail": format!("{e}")})),
                    Ok(Ok(published)) => {
                        let lo = prices.iter().map(|p| p * scale).min().unwrap();
                        let hi = prices.iter().map(|p| p * scale).max().unwrap();
                        if published.len() != 1 {
                            mism.push(json!({"sig": "oracle:median:not-one-price", "detail": {"n": published.len()}}));
                            continue;
                        }
                        let got = published[0].price().get();
                        if got < lo || got > hi {
                            mism.push(json!({"sig": "oracle:median:outside-reported-range",
                                             "detail": {"prices": c["prices"], "scale": scale.to_string(), "published": got.to_string()}}));
                        }
                        if scale == 1 && got != i128::from(c["median"].as_i64().unwrap()) {
                            mism.push(json!({"sig": "oracle:median:differs-from-spec",
                                             "detail": {"prices": c["prices"], "expected": c["median"], "published": got.to_string()}}));
                        }
                    }
                }
            }
            out.put(&json!({"case": k, "mismatches": mism}));
            continue;
        }
        let powers: Vec<u64> = c["powers"].as_array().unwrap().iter().map(|p| p.as_u64().unwrap()).collect();
        let votes: Vec<ExtendedVoteInfo> = c["votes"]
            .as_array()
            .unwrap()
            .iter()
            .map(|e| {
                let v = e["v"].as_u64().unwrap();
                // v = 0: a signer that is not in the validator set
                let (who, power) = if v == 0 { (9, 1) } else { (v, powers[(v - 1) as usize]) };
                vote(who, power, e["kind"].as_str().unwrap(), height, round, 7)
            })
            .collect();
        // the previous height's commit as CometBFT hands it to ProcessProposal
        let lc = c["lc"].as_str().unwrap();
        let mut last_votes: Vec<VoteInfo> = votes
            .iter()
            .map(|v| VoteInfo {
                validator: v.validator.clone(),
                sig_info: v.sig_info,
            })
            .collect();
        let mut last_round = round;
        match lc {
            "same" => {}
            "round" => last_round = 1,
            "len" => {
                last_votes.push(VoteInfo {
                    validator: validator(4, 1),
                    sig_info: BlockSignatureInfo::Flag(BlockIdFlag::Absent),
                });
            }
            "addr" => {
                if let Some(v) = last_votes.last_mut() {
                    v.validator.address = [0xee; 20];
                }
            }
            "power" => {
                if let Some(v) = last_votes.last_mut() {
                    v.validator.power = 77u32.into();
                }
            }
            // the voting power of the first entry (an absent validator in one of the vote sets) differs
            "power_first" => {
                if let Some(v) = last_votes.first_mut() {
                    v.validator.power = 77u32.into();
                }
            }
            "flag" => {
                for v in &mut last_votes {
                    v.sig_info = BlockSignatureInfo::Flag(BlockIdFlag::Nil);
                }
            }
            other => panic!("unknown last-commit relation {other}"),
        }
        let last_commit = CommitInfo {
            round: last_round.into(),
            votes: last_votes,
        };
        let eci = ExtendedCommitInfoWithCurrencyPairMapping {
            extended_commit_info: ExtendedCommitInfo {
                round: round.into(),
                votes,
            },
            id_to_currency_pair: if c["votes"].as_array().unwrap().iter().any(|e| e["kind"] == "ok") {
                mapping.clone()
            } else {
                indexmap::IndexMap::new()
            },
        };
        let r = ProposalHandler::validate_proposal(fixture.state(), height, &last_commit, &eci).await;
        let observed = if r.is_ok() { "accept" } else { "reject" };
        let expected = if c["verdict"] == "accept" { "accept" } else { "reject" };
        if observed != expected {
            mism.push(json!({
                "sig": format!("oracle:validate:expected={expected}:observed={observed}"),
                "detail": {"powers": c["powers"], "votes": c["votes"], "lc": lc, "spec_reason": c["verdict"],
                           "error": r.err().map(|e| format!("{e:#}"))},
            }));
        }
        out.put(&json!({"case": k, "mismatches": mism}));
    }
}
