//! S->I harness for spec/RollupData.tla: one case per block shape TLC enumerated.
//!
//! The block's actions (sequenced data for a rollup, bridge locks producing deposits) are executed as real transactions
//! through `finalize_block` + `commit`; then, for the stored block:
//!  * the full form (`GetSequencerBlock`) and the filtered form for every requested set of rollups (the real
//!    `SequencerServer` handlers) are decoded with the client-side types and compared with what the specification
//!    says each rollup must see;
//!  * `split_for_celestia` is compared likewise and written out as blob files for the conductor harness;
//!  * every tampering the specification lists is applied to the raw full / filtered form and must be refused by
//!    `try_from_raw`; tampered Celestia forms are written out for the conductor pipeline.
use std::{
    collections::BTreeMap,
    sync::Arc,
};

use astria_core::{
    generated::astria::sequencerblock::v1 as raw,
    primitive::v1::RollupId,
    protocol::transaction::v1::action::{
        BridgeLock,
        RollupDataSubmission,
    },
    sequencerblock::v1::{
        block::{
            FilteredSequencerBlock,
            RollupData,
        },
        SequencerBlock,
    },
    Protobuf as _,
};
use bytes::Bytes;
use prost::Message as _;
use serde_json::{
    json,
    Value,
};
use sha2::Digest as _;

use super::io;
use crate::{
    bridge::StateWriteExt as _,
    grpc::StateReadExt as _,
    test_utils::{
        astria_address,
        nria,
        Fixture,
        ALICE,
    },
};

const BLOCK_HASH: [u8; 32] = [0x42; 32];
const OTHER_HASH: [u8; 32] = [0x43; 32];

fn rid(r: u64) -> RollupId {
    RollupId::new([r as u8; 32])
}

fn payload(p: u64) -> Vec<u8> {
    format!("payload-{p}").into_bytes()
}

/// An item of rollup data as the specification names it: ["p", payload id] or ["d", deposit amount id].
fn item_name(bytes: &[u8]) -> Value {
    match raw::RollupData::decode(bytes).ok().and_then(|r| RollupData::try_from_raw(r).ok()) {
        Some(RollupData::SequencedData(d)) => {
            let s = String::from_utf8_lossy(&d).to_string();
            match s.strip_prefix("payload-").and_then(|x| x.parse::<u64>().ok()) {
                Some(p) => json!(["p", p]),
                None => json!(["p?", hex::encode(&d)]),
            }
        }
        Some(RollupData::Deposit(d)) => json!(["d", d.amount]),
        _ => json!(["?", hex::encode(bytes)]),
    }
}

fn names(txs: &[Bytes]) -> Vec<Value> {
    txs.iter().map(|t| item_name(t)).collect()
}

fn digests(txs: &[Bytes]) -> Vec<String> {
    txs.iter().map(|t| hex::encode(sha2::Sha256::digest(t))).collect()
}

fn expected_items(c: &Value) -> BTreeMap<u64, Vec<Value>> {
    // ToJson writes a function over a non-1..n domain as an object; over {1, 2, ..} as an array
    let ids: Vec<u64> = c["ids"].as_array().unwrap().iter().map(|v| v.as_u64().unwrap()).collect();
    let mut m = BTreeMap::new();
    match &c["items"] {
        Value::Array(a) => {
            for (k, r) in ids.iter().enumerate() {
                m.insert(*r, a[k].as_array().unwrap().clone());
            }
        }
        Value::Object(o) => {
            for (k, v) in o {
                m.insert(k.parse().unwrap(), v.as_array().unwrap().clone());
            }
        }
        _ => {}
    }
    m
}

fn write_blob(dir: &std::path::Path, name: &str, ns: celestia_namespace::Ns, bytes: Vec<u8>) -> Value {
    // brotli is not a feature of the sequencer's astria-core; the conductor harness compresses ("plain": true)
    let f = dir.join(name);
    std::fs::write(&f, &bytes).unwrap();
    json!({"ns": hex::encode(ns.0), "file": f.display().to_string(), "len": bytes.len(), "plain": true})
}

/// Celestia namespaces without the celestia-types crate (not a dependency of the sequencer): version 0, 18 leading
/// zero bytes, then the first 10 bytes of sha256(chain id) resp. of the rollup id.
mod celestia_namespace {
    use sha2::Digest as _;
    pub(super) struct Ns(pub(super) Vec<u8>);
    fn v0(id10: &[u8]) -> Ns {
        let mut v = vec![0u8; 18];
        v.extend_from_slice(&id10[..10]);
        Ns(v)
    }
    pub(super) fn sequencer(chain_id: &str) -> Ns {
        v0(&sha2::Sha256::digest(chain_id.as_bytes()))
    }
    pub(super) fn rollup(id: &[u8; 32]) -> Ns {
        v0(id)
    }
}

/// Applies tampering `kind` to the data of rollup `r` in a list of raw `RollupTransactions`-like entries.
fn tamper_items(txs: &mut Vec<Bytes>, kind: &str) {
    match kind {
        "alter_item" => {
            let mut b = txs[0].to_vec();
            let n = b.len();
            b[n - 1] ^= 1;
            txs[0] = b.into();
        }
        "swap_first_two" => txs.swap(0, 1),
        "drop_last" => {
            txs.pop();
        }
        "append_item" => txs.push(
            RollupData::SequencedData(Bytes::from_static(b"smuggled")).into_raw().encode_to_vec().into(),
        ),
        _ => unreachable!(),
    }
}

async fn run_case(c: &Value, blob_dir: &std::path::Path) -> Value {
    use tendermint::{
        abci::{
            self,
            types::CommitInfo,
        },
        block::Round,
        Hash,
        Time,
    };
    let mut mism: Vec<Value> = vec![];
    let mut fixture = Fixture::default_initialized().await;
    let all_rollups: Vec<u64> = c["rollups"].as_array().unwrap().iter().map(|v| v.as_u64().unwrap()).collect();
    let absent = c["absent"].as_u64().unwrap();
    for r in &all_rollups {
        let bridge = astria_address(&[100 + *r as u8; 20]);
        fixture.state_mut().put_bridge_account_rollup_id(&bridge, rid(*r)).unwrap();
        fixture.state_mut().put_bridge_account_ibc_asset(&bridge, nria()).unwrap();
    }
    fixture.app.prepare_commit(fixture.storage(), Vec::new()).await.unwrap();
    fixture.app.commit(fixture.storage()).await.unwrap();

    // the block's transactions: actions in block order, a new transaction after every cut
    let acts = c["acts"].as_array().unwrap();
    let cuts: Vec<u64> = c["cuts"].as_array().unwrap().iter().map(|v| v.as_u64().unwrap()).collect();
    let mut txs = vec![];
    let mut builder = fixture.checked_tx_builder().with_signer(ALICE.clone()).with_nonce(0);
    let mut in_tx = 0;
    let mut nonce = 0;
    for (i, a) in acts.iter().enumerate() {
        let r = a["r"].as_u64().unwrap();
        builder = match a["k"].as_str().unwrap() {
            "data" => builder.with_action(RollupDataSubmission {
                rollup_id: rid(r),
                data: payload(a["p"].as_u64().unwrap()).into(),
                fee_asset: nria().into(),
            }),
            _ => builder.with_action(BridgeLock {
                to: astria_address(&[100 + r as u8; 20]),
                amount: u128::from(a["p"].as_u64().unwrap()),
                asset: nria().into(),
                fee_asset: nria().into(),
                destination_chain_address: "over-there".to_string(),
            }),
        };
        in_tx += 1;
        if cuts.contains(&(i as u64 + 1)) || i + 1 == acts.len() {
            txs.push(builder.build().await);
            nonce += 1;
            builder = fixture.checked_tx_builder().with_signer(ALICE.clone()).with_nonce(nonce);
            in_tx = 0;
        }
    }
    let _ = in_tx;
    // like a proposer: execute once to learn the deposits the commitments must cover, then drop that state
    for tx in &txs {
        fixture.app.execute_transaction(tx.clone()).await.unwrap();
    }
    let deposits = {
        use crate::bridge::StateReadExt as _;
        fixture.state().get_cached_block_deposits()
    };
    let storage = fixture.storage();
    fixture.app.update_state_for_new_round(&storage);
    let height = fixture.block_height().await.increment();
    let finalize = abci::request::FinalizeBlock {
        hash: Hash::Sha256(BLOCK_HASH),
        height,
        time: Time::from_unix_timestamp(101, 0).unwrap(),
        next_validators_hash: Hash::default(),
        proposer_address: [0u8; 20].to_vec().try_into().unwrap(),
        txs: crate::test_utils::transactions_with_extended_commit_info_and_commitments(height, &txs, Some(deposits)),
        decided_last_commit: CommitInfo {
            votes: vec![],
            round: Round::default(),
        },
        misbehavior: vec![],
    };
    if let Err(e) = fixture.app.finalize_block(finalize, storage.clone()).await {
        return json!({"i": c["id"], "mismatches": [{"sig": "rollupdata:finalize-error", "detail": format!("{e:#}")}]});
    }
    fixture.app.commit(storage.clone()).await.unwrap();

    let exp = expected_items(c);
    let exp_ids: Vec<u64> = exp.keys().copied().collect();
    let server = Arc::new(crate::grpc::sequencer::SequencerServer::new(
        storage.clone(),
        fixture.mempool(),
        astria_core::upgrades::v1::Upgrades::default(),
    ));
    use astria_core::generated::astria::sequencerblock::v1::sequencer_service_server::SequencerService as _;

    // ---- the full form, as served
    let full_raw = match server
        .clone()
        .get_sequencer_block(tonic::Request::new(raw::GetSequencerBlockRequest {
            height: height.value(),
        }))
        .await
    {
        Ok(r) => r.into_inner(),
        Err(e) => {
            return json!({"i": c["id"], "mismatches": [{"sig": "rollupdata:full:not-served", "detail": e.to_string()}]});
        }
    };
    let view_of = |entries: Vec<(RollupId, Vec<Bytes>)>| -> BTreeMap<u64, Vec<Value>> {
        let mut m = BTreeMap::new();
        for (id, t) in entries {
            m.insert(u64::from(id.as_bytes()[0]), names(&t));
        }
        m
    };
    match SequencerBlock::try_from_raw(full_raw.clone()) {
        Err(e) => mism.push(json!({"sig": "rollupdata:full:honest-form-refused", "detail": e.to_string()})),
        Ok(b) => {
            let got = view_of(b.rollup_transactions().iter().map(|(k, v)| (*k, v.transactions().to_vec())).collect());
            if got != exp {
                mism.push(json!({"sig": "rollupdata:full:items-differ", "detail": {"expected": exp, "observed": got}}));
            }
        }
    }

    // ---- the filtered form for every requested set
    for f in c["filters"].as_array().unwrap() {
        let req: Vec<u64> = f["req"].as_array().unwrap().iter().map(|v| v.as_u64().unwrap()).collect();
        let has: Vec<u64> = f["has"].as_array().unwrap().iter().map(|v| v.as_u64().unwrap()).collect();
        // the same set of rollups asked for in every rotation of ascending and of descending order
        let mut orders: Vec<Vec<u64>> = vec![];
        for k in 0..req.len().max(1) {
            let mut o = req.clone();
            let by = k.min(o.len());
            o.rotate_left(by);
            orders.push(o.clone());
            o.reverse();
            orders.push(o);
        }
        orders.sort();
        orders.dedup();
        for order in orders {
        let resp = server
            .clone()
            .get_filtered_sequencer_block(tonic::Request::new(raw::GetFilteredSequencerBlockRequest {
                height: height.value(),
                rollup_ids: order.iter().map(|r| rid(*r).into_raw()).collect(),
            }))
            .await;
        let req = order.clone();
        let fr = match resp {
            Ok(r) => r.into_inner(),
            Err(e) => {
                mism.push(json!({"sig": "rollupdata:filtered:not-served", "detail": {"req": req, "error": e.to_string()}}));
                continue;
            }
        };
        match FilteredSequencerBlock::try_from_raw(fr) {
            Err(e) => mism.push(json!({"sig": "rollupdata:filtered:honest-form-refused", "detail": {"req": req, "error": e.to_string()}})),
            Ok(b) => {
                let got = view_of(b.rollup_transactions().iter().map(|(k, v)| (*k, v.transactions().to_vec())).collect());
                let want: BTreeMap<u64, Vec<Value>> = exp.iter().filter(|(r, _)| has.contains(r)).map(|(r, v)| (*r, v.clone())).collect();
                if got != want {
                    mism.push(json!({"sig": "rollupdata:filtered:items-differ", "detail": {"req": req, "expected": want, "observed": got}}));
                }
                let mut ids: Vec<u64> = b.all_rollup_ids().iter().map(|i| u64::from(i.as_bytes()[0])).collect();
                ids.sort_unstable();
                if ids != exp_ids {
                    mism.push(json!({"sig": "rollupdata:filtered:all-rollup-ids-differ", "detail": {"req": req, "expected": exp_ids, "observed": ids}}));
                }
            }
        }
        }
    }
    let all_req: Vec<u64> = all_rollups.iter().copied().chain([absent]).collect();
    let filtered_all = server
        .clone()
        .get_filtered_sequencer_block(tonic::Request::new(raw::GetFilteredSequencerBlockRequest {
            height: height.value(),
            rollup_ids: all_req.iter().map(|r| rid(*r).into_raw()).collect(),
        }))
        .await
        .map(tonic::Response::into_inner);

    // ---- the Celestia form
    let stored = fixture.state().get_sequencer_block_by_height(height.value()).await.unwrap();
    let chain_id = stored.header().chain_id().to_string();
    let (meta, rollup_datas) = stored.split_for_celestia();
    let meta_raw = meta.into_raw();
    let rd_raw: Vec<raw::SubmittedRollupData> = rollup_datas.into_iter().map(|d| d.into_raw()).collect();
    {
        let got: BTreeMap<u64, Vec<Value>> = rd_raw
            .iter()
            .map(|d| (u64::from(d.rollup_id.as_ref().unwrap().inner[0]), names(&d.transactions)))
            .collect();
        if got != exp {
            mism.push(json!({"sig": "rollupdata:celestia:items-differ", "detail": {"expected": exp, "observed": got}}));
        }
        let mut ids: Vec<u64> = meta_raw.rollup_ids.iter().map(|i| u64::from(i.inner[0])).collect();
        ids.sort_unstable();
        if ids != exp_ids {
            mism.push(json!({"sig": "rollupdata:celestia:rollup-ids-differ", "detail": {"expected": exp_ids, "observed": ids}}));
        }
    }
    let honest_digests: BTreeMap<u64, Vec<String>> = rd_raw
        .iter()
        .map(|d| (u64::from(d.rollup_id.as_ref().unwrap().inner[0]), digests(&d.transactions)))
        .collect();
    // a second block's metadata, for rollup data that claims to belong to another block
    let other_meta = {
        let blk = astria_core::protocol::test_utils::ConfigureSequencerBlock {
            block_hash: Some(astria_core::sequencerblock::v1::block::Hash::new(OTHER_HASH)),
            chain_id: Some(chain_id.clone()),
            height: height.value() as u32 + 1,
            sequence_data: all_rollups.iter().map(|r| (rid(*r), b"other block".to_vec())).collect(),
            unix_timestamp: (1i64, 1u32).into(),
            ..Default::default()
        }
        .make();
        blk.split_for_celestia().0.into_raw()
    };
    let seq_ns = celestia_namespace::sequencer(&chain_id);
    let mut celestia_cases = vec![];
    let mut emit = |tag: String, metas: Vec<raw::SubmittedMetadata>, datas: &Vec<raw::SubmittedRollupData>, views: Vec<u64>, verdict: &str| {
        let mut blobs = vec![write_blob(
            blob_dir,
            &format!("case{}-{tag}-meta.bin", c["id"]),
            celestia_namespace::Ns(seq_ns.0.clone()),
            raw::SubmittedMetadataList {
                entries: metas,
            }
            .encode_to_vec(),
        )];
        // one list per namespace, as the relayer publishes them
        let mut by_ns: BTreeMap<Vec<u8>, Vec<raw::SubmittedRollupData>> = BTreeMap::new();
        for d in datas {
            let id: [u8; 32] = d.rollup_id.as_ref().unwrap().inner.as_ref().try_into().unwrap();
            by_ns.entry(celestia_namespace::rollup(&id).0).or_default().push(d.clone());
        }
        for (k, (ns, entries)) in by_ns.into_iter().enumerate() {
            blobs.push(write_blob(
                blob_dir,
                &format!("case{}-{tag}-rollup{k}.bin", c["id"]),
                celestia_namespace::Ns(ns),
                raw::SubmittedRollupDataList {
                    entries,
                }
                .encode_to_vec(),
            ));
        }
        celestia_cases.push(json!({"tag": tag, "views": views, "verdict": verdict, "blobs": blobs}));
    };
    emit("honest".to_string(), vec![meta_raw.clone()], &rd_raw, all_req.clone(), "accept");

    // ---- tampering
    let mut tamper_results = vec![];
    for t in c["tampers"].as_array().unwrap() {
        let kind = t["kind"].as_str().unwrap();
        if kind == "none" {
            continue;
        }
        let r = t["r"].as_u64().unwrap();
        let form = t["form"].as_str().unwrap();
        let want = t["verdict"].as_str().unwrap();
        let other = all_rollups.iter().copied().find(|o| *o != r).unwrap_or(absent);
        let tag = format!("{form}-{kind}-{r}");
        let item_kind = matches!(kind, "alter_item" | "swap_first_two" | "drop_last" | "append_item");
        let observed: Option<&str> = match form {
            "full" | "filtered" => {
                // both raw forms carry `rollup_transactions`; the filtered one also `all_rollup_ids`
                let mut full = full_raw.clone();
                let mut filt = match &filtered_all {
                    Ok(f) => f.clone(),
                    Err(_) => continue,
                };
                let entries = if form == "full" { &mut full.rollup_transactions } else { &mut filt.rollup_transactions };
                let pos = entries.iter().position(|e| e.rollup_id.as_ref().is_some_and(|i| i.inner[0] == r as u8));
                let applied = match (kind, pos) {
                    (k, Some(p)) if item_kind => {
                        tamper_items(&mut entries[p].transactions, k);
                        true
                    }
                    ("relabel_to_absent", Some(p)) => {
                        entries[p].rollup_id = Some(rid(absent).into_raw());
                        true
                    }
                    ("relabel_to_other", Some(p)) => {
                        entries[p].rollup_id = Some(rid(other).into_raw());
                        true
                    }
                    ("ids_drop", _) => {
                        if form == "full" {
                            if entries.is_empty() {
                                false
                            } else {
                                entries.remove(0);
                                true
                            }
                        } else if filt.all_rollup_ids.is_empty() {
                            false
                        } else {
                            filt.all_rollup_ids.remove(0);
                            true
                        }
                    }
                    ("ids_add", _) => {
                        if form == "full" {
                            let proof = entries.first().and_then(|e| e.proof.clone()).or_else(|| full_raw.rollup_ids_proof.clone());
                            entries.push(raw::RollupTransactions {
                                rollup_id: Some(rid(absent).into_raw()),
                                transactions: vec![RollupData::SequencedData(Bytes::from_static(b"x")).into_raw().encode_to_vec().into()],
                                proof,
                            });
                        } else {
                            filt.all_rollup_ids.push(rid(absent).into_raw());
                        }
                        true
                    }
                    _ => false,
                };
                if !applied {
                    continue;
                }
                // what the receiver ends up holding, if it accepts: (items per rollup, list of rollup ids)
                let accepted = std::panic::catch_unwind(std::panic::AssertUnwindSafe(|| {
                    if form == "full" {
                        SequencerBlock::try_from_raw(full).ok().map(|b| {
                            let held = view_of(b.rollup_transactions().iter().map(|(k, v)| (*k, v.transactions().to_vec())).collect());
                            let ids: Vec<u64> = held.keys().copied().collect();
                            (held, ids)
                        })
                    } else {
                        FilteredSequencerBlock::try_from_raw(filt).ok().map(|b| {
                            let held = view_of(b.rollup_transactions().iter().map(|(k, v)| (*k, v.transactions().to_vec())).collect());
                            let mut ids: Vec<u64> = b.all_rollup_ids().iter().map(|i| u64::from(i.as_bytes()[0])).collect();
                            ids.sort_unstable();
                            (held, ids)
                        })
                    }
                }));
                Some(match accepted {
                    Err(_) => "panic",
                    Ok(None) => "reject",
                    Ok(Some((held, ids))) => {
                        let genuine = ids == exp_ids
                            && held.iter().all(|(r, items)| exp.get(r) == Some(items))
                            && (form != "full" || held.len() == exp.len());
                        if !genuine {
                            "accept_forged"
                        } else if held.len() == exp.len() {
                            "accept"
                        } else {
                            "accept_subset"
                        }
                    }
                })
            }
            _ => {
                // Celestia: the verdict is the conductor's; write the tampered blobs out
                let mut metas = vec![meta_raw.clone()];
                let mut datas = rd_raw.clone();
                let pos = datas.iter().position(|d| d.rollup_id.as_ref().is_some_and(|i| i.inner[0] == r as u8));
                let mut views = vec![r];
                let applied = match (kind, pos) {
                    (k, Some(p)) if item_kind => {
                        tamper_items(&mut datas[p].transactions, k);
                        true
                    }
                    ("relabel_to_absent", Some(p)) => {
                        datas[p].rollup_id = Some(rid(absent).into_raw());
                        views.push(absent);
                        true
                    }
                    ("relabel_to_other", Some(p)) => {
                        datas[p].rollup_id = Some(rid(other).into_raw());
                        views.push(other);
                        true
                    }
                    ("other_block_hash", Some(p)) => {
                        datas[p].sequencer_block_hash = OTHER_HASH.to_vec().into();
                        metas.push(other_meta.clone());
                        true
                    }
                    ("ids_drop", _) if !metas[0].rollup_ids.is_empty() => {
                        metas[0].rollup_ids.remove(0);
                        views = exp_ids.clone();
                        true
                    }
                    ("ids_add", _) => {
                        metas[0].rollup_ids.push(rid(absent).into_raw());
                        views = exp_ids.iter().copied().chain([absent]).collect();
                        true
                    }
                    _ => false,
                };
                if applied {
                    emit(tag.clone(), metas, &datas, views, want);
                }
                None
            }
        };
        if let Some(obs) = observed {
            tamper_results.push(json!({"tag": tag, "expected": want, "observed": obs}));
            let fine = obs == want
                || (want == "reject_or_subset" && matches!(obs, "reject" | "accept_subset"))
                // the filtered form served for all rollups, genuinely decoded, may be all of it or (never here) less
                || (want == "accept" && obs == "accept");
            if !fine {
                mism.push(json!({"sig": format!("rollupdata:{form}:tamper:{kind}:expected={want}:observed={obs}"),
                                 "detail": {"r": r, "acts": c["acts"], "cuts": c["cuts"]}}));
            }
        }
    }
    json!({
        "i": c["id"],
        "mismatches": mism,
        "tampers_checked": tamper_results.len(),
        "filters_checked": c["filters"].as_array().unwrap().len(),
        "celestia": {
            "chain": chain_id,
            "height": height.value(),
            "hash": hex::encode(BLOCK_HASH),
            "other": {"height": height.value() + 1, "hash": hex::encode(OTHER_HASH)},
            "honest_digests": honest_digests,
            "cases": celestia_cases,
        },
    })
}

#[tokio::test]
async fn rollupdata_blocks() {
    let cases = io::read_cases();
    let mut out = io::Writer::open();
    let blob_dir = std::path::PathBuf::from(std::env::var("VERIF_OUT").unwrap()).with_extension("blobs");
    std::fs::create_dir_all(&blob_dir).unwrap();
    for c in &cases {
        out.put(&run_case(c, &blob_dir).await);
    }
}
