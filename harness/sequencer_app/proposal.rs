//! C06 harness.
//! `proposal_traces` (I->S): seeded random mempool contents aimed at the limits; the real `prepare_proposal` on a
//! proposer node and the real `process_proposal` on a fresh validator node; one record per scenario with the real
//! builder queue (real encoded sizes), the chosen CometBFT byte limit, the produced block and the verdict.  TLC
//! validates the records against spec/Proposal.tla.
//! `proposal_mutations` (S->I): each mutation of an honest block named by the specification must be rejected.
use std::{
    collections::HashMap,
    sync::Arc,
};

use astria_core::{
    crypto::SigningKey,
    primitive::v1::RollupId,
    protocol::{
        fees::v1::FeeComponents,
        transaction::v1::{
            action::{
                FeeChange,
                RollupDataSubmission,
                Transfer,
            },
            Action,
            TransactionBody,
        },
    },
    Protobuf as _,
};
use bytes::Bytes;
use prost::Message as _;
use rand::{
    rngs::StdRng,
    Rng as _,
    SeedableRng as _,
};
use serde_json::{
    json,
    Value,
};
use tendermint::{
    abci::{
        self,
        types::{
            CommitInfo,
            ExtendedCommitInfo,
        },
    },
    Hash,
    Time,
};

use super::io;
use crate::{
    checked_transaction::CheckedTransaction,
    proposal::commitment::generate_rollup_datas_commitment,
    test_utils::{
        astria_address,
        dummy_balances,
        dummy_tx_costs,
        nria,
        Fixture,
        ALICE,
        CAROL,
        SUDO,
    },
};

fn signer(acct: u64) -> SigningKey {
    match acct {
        1 => ALICE.clone(),
        2 => CAROL.clone(),
        _ => SUDO.clone(),
    }
}

#[derive(Clone)]
struct Spec {
    acct: u64,
    nonce: u32,
    kind: &'static str, // "transfer" | "overdraft" | "data:<n>" | "fee_change"
    data: usize,
}

fn build(s: &Spec, chain_id: &str) -> Bytes {
    let action: Action = match s.kind {
        "transfer" => Transfer {
            to: astria_address(&[0x21; 20]),
            amount: 3,
            asset: nria().into(),
            fee_asset: nria().into(),
        }
        .into(),
        // more than the account will ever hold: fails whenever it is executed
        "overdraft" => Transfer {
            to: astria_address(&[0x21; 20]),
            amount: u128::MAX / 2,
            asset: nria().into(),
            fee_asset: nria().into(),
        }
        .into(),
        "data" => RollupDataSubmission {
            rollup_id: RollupId::new([s.acct as u8; 32]),
            data: vec![0x5a; s.data].into(),
            fee_asset: nria().into(),
        }
        .into(),
        "fee_change" => FeeChange::Transfer(FeeComponents::new(u128::from(s.nonce) + 1, 0)).into(),
        // a deposit for a rollup that has no sequenced data of its own in the block; its id sorts before every other
        "lock" => astria_core::protocol::transaction::v1::action::BridgeLock {
            to: bridge_address(),
            amount: 7,
            asset: nria().into(),
            fee_asset: nria().into(),
            destination_chain_address: "over-there".to_string(),
        }
        .into(),
        other => panic!("unknown kind {other}"),
    };
    let body = TransactionBody::builder().actions(vec![action]).chain_id(chain_id).nonce(s.nonce).try_build().unwrap();
    Bytes::from(body.sign(&signer(s.acct)).into_raw().encode_to_vec())
}

fn bridge_address() -> astria_core::primitive::v1::Address {
    astria_address(&[0x77; 20])
}

async fn node() -> (Fixture, tendermint::block::Height) {
    use crate::bridge::StateWriteExt as _;
    let mut f = Fixture::default_initialized().await;
    // a bridge account whose rollup id ([0; 32]) is smaller than every id sequenced data is submitted for
    f.state_mut().put_bridge_account_rollup_id(&bridge_address(), RollupId::new([0; 32])).unwrap();
    f.state_mut().put_bridge_account_ibc_asset(&bridge_address(), nria()).unwrap();
    f.app.prepare_commit(f.storage(), Vec::new()).await.unwrap();
    f.app.commit(f.storage()).await.unwrap();
    let h = f.block_height().await.increment();
    (f, h)
}

fn prepare_req(height: tendermint::block::Height, max_tx_bytes: i64) -> abci::request::PrepareProposal {
    abci::request::PrepareProposal {
        height,
        time: Time::from_unix_timestamp(1_744_037_100, 0).unwrap(),
        next_validators_hash: Hash::default(),
        proposer_address: [0x58u8; 20].to_vec().try_into().unwrap(),
        txs: vec![],
        max_tx_bytes,
        local_last_commit: Some(ExtendedCommitInfo {
            votes: vec![],
            round: 0u16.into(),
        }),
        misbehavior: vec![],
    }
}

fn process_req(height: tendermint::block::Height, txs: Vec<Bytes>, seed: u8) -> abci::request::ProcessProposal {
    abci::request::ProcessProposal {
        hash: Hash::Sha256([seed; 32]),
        height,
        time: Time::from_unix_timestamp(1_744_037_100, 0).unwrap(),
        next_validators_hash: Hash::default(),
        proposer_address: [0x58u8; 20].to_vec().try_into().unwrap(),
        txs,
        proposed_last_commit: Some(CommitInfo {
            votes: vec![],
            round: 0u16.into(),
        }),
        misbehavior: vec![],
    }
}

fn group_number(tx: &CheckedTransaction) -> u64 {
    use astria_core::protocol::transaction::v1::action::group::Group;
    match tx.group() {
        Group::UnbundleableSudo => 1,
        Group::BundleableSudo => 2,
        Group::UnbundleableGeneral => 3,
        Group::BundleableGeneral => 4,
    }
}

fn random_specs(rng: &mut StdRng) -> Vec<Spec> {
    let mut specs = vec![];
    for acct in [1u64, 2] {
        let n = rng.gen_range(0..4u32);
        for nonce in 0..n {
            let (kind, data) = match rng.gen_range(0..10) {
                0 => ("overdraft", 0),
                1 | 2 => ("data", 200_000),
                3 => ("data", 56_000),
                4 | 5 => ("data", rng.gen_range(1..2000)),
                6 => ("lock", 0),
                _ => ("transfer", 0),
            };
            // sometimes leave a gap: the mempool parks what follows
            let nonce = if rng.gen_range(0..12) == 0 { nonce + 1 } else { nonce };
            specs.push(Spec {
                acct,
                nonce,
                kind,
                data,
            });
        }
    }
    for nonce in 0..rng.gen_range(0..3u32) {
        specs.push(Spec {
            acct: 3,
            nonce,
            kind: "fee_change",
            data: 0,
        });
    }
    // insertion order matters for the builder queue's time tie-break
    for i in (1..specs.len()).rev() {
        let j = rng.gen_range(0..=i);
        specs.swap(i, j);
    }
    specs
}

async fn scenario(seed: u64, overhead: usize) -> Value {
    let mut rng = StdRng::seed_from_u64(seed);
    let (mut p, height) = node().await;
    let specs = random_specs(&mut rng);
    let mut by_id: HashMap<astria_core::primitive::v1::TransactionId, (usize, Spec)> = HashMap::new();
    for (i, s) in specs.iter().enumerate() {
        let bytes = build(s, "test");
        let Ok(tx) = CheckedTransaction::new(bytes, p.state()).await else {
            continue;
        };
        let tx = Arc::new(tx);
        // CheckTx shows the mempool the committed nonce (0) and balances that cover everything
        if p.mempool().insert(tx.clone(), 0, &dummy_balances(0, 0), dummy_tx_costs(0, 0, 0)).await.is_ok() {
            by_id.insert(*tx.id(), (i + 1, s.clone()));
        }
    }
    let queue = p.mempool().builder_queue().await;
    let mut q = vec![];
    let mut cumulative = vec![overhead];
    for tx in &queue {
        let (id, s) = &by_id[tx.id()];
        let len = tx.encoded_bytes().len();
        let seq: usize = tx.rollup_data_bytes().map(|(_, d)| d.len()).sum();
        q.push(json!({"id": id, "acct": s.acct, "nonce": s.nonce, "group": group_number(tx), "len": len, "seq": seq,
                      "exec": if s.kind == "overdraft" { "fatal" } else { "ok" }, "fresh": true}));
        cumulative.push(cumulative.last().unwrap() + len);
    }
    // the CometBFT limit: exactly at / one byte short of / one byte past a prefix of the queue, or generous
    let max_tx_bytes = match rng.gen_range(0..4) {
        0 => 1_000_000,
        _ => {
            let k = rng.gen_range(0..cumulative.len());
            let delta: i64 = rng.gen_range(-1..=1);
            (cumulative[k] as i64 + delta).max(overhead as i64)
        }
    };
    let storage = p.storage();
    let prepared = p.app.prepare_proposal(prepare_req(height, max_tx_bytes), storage).await;
    let txs = match prepared {
        Ok(r) => r.txs,
        Err(e) => return json!({"seed": seed, "error": format!("prepare failed: {e:#}")}),
    };
    let total: usize = txs.iter().map(Bytes::len).sum();
    let mut block = vec![];
    let mut injected = 0usize;
    for item in &txs {
        let id = astria_core::primitive::v1::TransactionId::new(sha2::Digest::finalize(sha2::Digest::chain_update(sha2::Sha256::default(), item)).into());
        match by_id.get(&id) {
            Some((i, _)) => block.push(*i),
            None => injected += item.len(),
        }
    }
    // every honest node on the same committed state must accept it
    let (mut v, vh) = node().await;
    assert_eq!(height, vh);
    let vstorage = v.storage();
    let verdict = match v.app.process_proposal(process_req(height, txs.clone(), 9), vstorage).await {
        Ok(()) => "accept".to_string(),
        Err(e) => format!("reject: {e:#}").chars().take(160).collect(),
    };
    json!({"seed": seed, "kind": "random", "queue": q, "maxBytes": max_tx_bytes, "overhead": overhead, "block": block, "verdict": verdict,
           "total_bytes": total, "injected_bytes": injected})
}

/// A mempool transaction that went stale: constructed while its mutable check passed, no longer constructible against
/// the block's start state, but passing again after an earlier transaction of the same block.
async fn scenario_stale(seed: u64, overhead: usize) -> Value {
    use astria_core::protocol::transaction::v1::action::FeeAssetChange;
    async fn run_block(f: &mut Fixture, txs: &[Arc<CheckedTransaction>], s: u8) {
        let height = f.block_height().await.increment();
        let finalize = abci::request::FinalizeBlock {
            hash: Hash::Sha256([s; 32]),
            height,
            time: Time::from_unix_timestamp(1_744_036_900 + i64::from(s), 0).unwrap(),
            next_validators_hash: Hash::default(),
            proposer_address: [0u8; 20].to_vec().try_into().unwrap(),
            txs: crate::test_utils::transactions_with_extended_commit_info_and_commitments(height, txs, None),
            decided_last_commit: CommitInfo { votes: vec![], round: 0u16.into() },
            misbehavior: vec![],
        };
        let storage = f.storage();
        f.app.finalize_block(finalize, storage.clone()).await.unwrap();
        f.app.commit(storage).await.unwrap();
    }
    let mut p = Fixture::default_initialized().await;
    let mut v = Fixture::default_initialized().await;
    // block 1: add fee asset `other` (sudo nonce 0)
    let add_other = p.checked_tx_builder().with_signer(SUDO.clone()).with_nonce(0)
        .with_action(FeeAssetChange::Addition("other".parse().unwrap())).build().await;
    run_block(&mut p, std::slice::from_ref(&add_other), 1).await;
    run_block(&mut v, std::slice::from_ref(&add_other), 1).await;
    // T arrives now (CheckTx): remove nria, nonce 3; constructible because two fee assets exist
    let t = p.checked_tx_builder().with_signer(SUDO.clone()).with_nonce(3)
        .with_action(FeeAssetChange::Removal(nria().into())).build().await;
    // block 2: remove `other` (nonce 1): nria is the only fee asset again
    let rm_other = p.checked_tx_builder().with_signer(SUDO.clone()).with_nonce(1)
        .with_action(FeeAssetChange::Removal("other".parse().unwrap())).build().await;
    run_block(&mut p, std::slice::from_ref(&rm_other), 2).await;
    run_block(&mut v, std::slice::from_ref(&rm_other), 2).await;
    // E arrives: add `third`, nonce 2
    let e = p.checked_tx_builder().with_signer(SUDO.clone()).with_nonce(2)
        .with_action(FeeAssetChange::Addition("third".parse().unwrap())).build().await;
    p.mempool().insert(e.clone(), 2, &dummy_balances(0, 0), dummy_tx_costs(0, 0, 0)).await.unwrap();
    p.mempool().insert(t.clone(), 2, &dummy_balances(0, 0), dummy_tx_costs(0, 0, 0)).await.unwrap();
    let queue = p.mempool().builder_queue().await;
    let mut q = vec![];
    for tx in &queue {
        let is_t = tx.id() == t.id();
        // nonces are relative to the account nonce at the start of the block (2)
        q.push(json!({"id": if is_t { 2 } else { 1 }, "acct": 3, "nonce": tx.nonce() - 2, "group": group_number(tx),
                      "len": tx.encoded_bytes().len(), "seq": 0, "exec": "ok", "fresh": !is_t}));
    }
    let height = p.block_height().await.increment();
    let storage = p.storage();
    let txs = match p.app.prepare_proposal(prepare_req(height, 1_000_000), storage).await {
        Ok(r) => r.txs,
        Err(err) => return json!({"seed": seed, "error": format!("prepare failed: {err:#}")}),
    };
    let mut block = vec![];
    for item in &txs {
        if item == e.encoded_bytes() {
            block.push(1);
        } else if item == t.encoded_bytes() {
            block.push(2);
        }
    }
    let vstorage = v.storage();
    let verdict = match v.app.process_proposal(process_req(height, txs, 9), vstorage).await {
        Ok(()) => "accept",
        Err(_) => "reject",
    };
    json!({"seed": seed, "kind": "stale", "queue": q, "maxBytes": 1_000_000, "overhead": overhead, "block": block,
           "verdict": verdict, "total_bytes": 0, "injected_bytes": overhead})
}

#[tokio::test]
async fn proposal_traces() {
    let cases = io::read_cases();
    let mut out = io::Writer::open();
    // bytes the block carries besides user transactions (two commitments + the empty extended commit info)
    let (mut probe, h) = node().await;
    let storage = probe.storage();
    let overhead: usize =
        probe.app.prepare_proposal(prepare_req(h, 1_000_000), storage).await.unwrap().txs.iter().map(Bytes::len).sum();
    for c in &cases {
        let seed = c["seed"].as_u64().unwrap();
        if c["kind"] == "stale" {
            out.put(&scenario_stale(seed, overhead).await);
        } else {
            out.put(&scenario(seed, overhead).await);
        }
    }
}

// ---------------------------------------------------------------------------------------------
fn sign_raw(body: TransactionBody, key: &SigningKey) -> Bytes {
    Bytes::from(body.sign(key).into_raw().encode_to_vec())
}

async fn honest_block() -> (Vec<Bytes>, Vec<Arc<CheckedTransaction>>, tendermint::block::Height) {
    let (mut p, height) = node().await;
    let specs = vec![
        Spec { acct: 1, nonce: 0, kind: "data", data: 500 },
        Spec { acct: 1, nonce: 1, kind: "transfer", data: 0 },
        Spec { acct: 2, nonce: 0, kind: "data", data: 300 },
        Spec { acct: 3, nonce: 0, kind: "fee_change", data: 0 },
    ];
    for s in &specs {
        let tx = Arc::new(CheckedTransaction::new(build(s, "test"), p.state()).await.unwrap());
        p.mempool().insert(tx, 0, &dummy_balances(0, 0), dummy_tx_costs(0, 0, 0)).await.unwrap();
    }
    let queue = p.mempool().builder_queue().await;
    let storage = p.storage();
    let txs = p.app.prepare_proposal(prepare_req(height, 1_000_000), storage).await.unwrap().txs;
    (txs, queue, height)
}

/// Adds a (general-group) transaction to an honest block where the group order allows it -- in front of the trailing
/// sudo transaction -- so that the only thing wrong with the block is the added transaction itself.
fn insert_general(txs: &mut Vec<Bytes>, tx: Bytes) {
    let at = txs.len() - 1;
    txs.insert(at, tx);
}

#[tokio::test]
async fn proposal_mutations() {
    let cases = io::read_cases();
    let mut out = io::Writer::open();
    let (honest, queue, height) = honest_block().await;
    let injected = honest.len() - queue.len();
    for (k, c) in cases.iter().enumerate() {
        let m = c["mutation"].as_str().unwrap();
        let mut txs = honest.clone();
        match m {
            "none" => {}
            "bad_rollup_txs_root" => {
                let mut b = txs[0].to_vec();
                let n = b.len();
                b[n - 1] ^= 1;
                txs[0] = b.into();
            }
            "bad_rollup_ids_root" => {
                let mut b = txs[1].to_vec();
                let n = b.len();
                b[n - 1] ^= 1;
                txs[1] = b.into();
            }
            "swap_commitments" => txs.swap(0, 1),
            "drop_commitment" => {
                txs.remove(0);
            }
            "drop_extended_commit_info" => {
                txs.remove(2);
            }
            "drop_data_tx" => {
                // the first user transaction carries rollup data and has a successor from the same account
                txs.remove(injected);
            }
            "dup_tx" => {
                let t = txs[injected].clone();
                txs.push(t);
            }
            "sudo_group_first" => {
                // move the (lower-group) sudo transaction in front of the general ones
                let last = txs.pop().unwrap();
                txs.insert(injected, last);
            }
            "append_failing_tx" => {
                insert_general(&mut txs, build(&Spec { acct: 2, nonce: 1, kind: "overdraft", data: 0 }, "test"));
            }
            "append_garbage" => insert_general(&mut txs, Bytes::from_static(b"\xff\xfe not a transaction")),
            "append_bad_signature" => {
                let mut b = build(&Spec { acct: 2, nonce: 1, kind: "transfer", data: 0 }, "test").to_vec();
                // the signature is the first field of the raw transaction
                b[10] ^= 0x40;
                insert_general(&mut txs, b.into());
            }
            "append_wrong_chain_id" => {
                insert_general(&mut txs, build(&Spec { acct: 2, nonce: 1, kind: "transfer", data: 0 }, "some-other-chain"));
            }
            "append_stale_nonce" => {
                insert_general(&mut txs, build(&Spec { acct: 2, nonce: 0, kind: "transfer", data: 0 }, "test"));
            }
            "append_gapped_nonce" => {
                insert_general(&mut txs, build(&Spec { acct: 2, nonce: 5, kind: "transfer", data: 0 }, "test"));
            }
            "over_sequenced_limit" => {
                // two transactions of 200 000 sequenced bytes each, with correctly recomputed commitments
                let (f, _) = node().await;
                let a = Arc::new(CheckedTransaction::new(build(&Spec { acct: 1, nonce: 0, kind: "data", data: 200_000 }, "test"), f.state()).await.unwrap());
                let b = Arc::new(CheckedTransaction::new(build(&Spec { acct: 2, nonce: 0, kind: "data", data: 200_000 }, "test"), f.state()).await.unwrap());
                let list = vec![a, b];
                let commitments = generate_rollup_datas_commitment::<true>(&list, HashMap::new());
                txs = commitments
                    .into_iter()
                    .chain(std::iter::once(honest[2].clone()))
                    .chain(list.iter().map(|t| t.encoded_bytes().clone()))
                    .collect();
            }
            other => panic!("unknown mutation {other}"),
        }
        let (mut v, vh) = node().await;
        assert_eq!(vh, height);
        let storage = v.storage();
        let r = v.app.process_proposal(process_req(height, txs, 7), storage).await;
        let observed = if r.is_ok() { "accept" } else { "reject" };
        let expected = c["expect"].as_str().unwrap();
        let mut mism = vec![];
        if observed != expected {
            mism.push(json!({"sig": format!("proposal:mutation:{m}:expected={expected}:observed={observed}"),
                             "detail": {"error": r.err().map(|e| format!("{e:#}"))}}));
        }
        out.put(&json!({"case": k, "mismatches": mism}));
    }
}
