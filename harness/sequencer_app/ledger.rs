//! S->I replay of spec/Ledger.tla transitions on the real `App`.
//!
//! For every transition `(s, tx, outcome, t)` TLC explored:
//!   1. reset the app's state delta to the committed (genesis + upgrades) snapshot,
//!   2. materialise the abstract state the transaction was *constructed* against (`sc`, usually `s`) with the real
//!      state-extension setters and build the real `CheckedTransaction` from signed protobuf bytes,
//!   3. materialise `s` (if different) and run the real `App::execute_transaction`,
//!   4. compare the outcome class, the fee events and the *complete* raw key/value dump of the resulting state
//!      (verifiable and non-verifiable) plus the block-ephemeral accumulators with the state obtained by
//!      materialising `s` and then writing only the fields in which the specification's `t` differs from `s`.
//!      For a failed transaction the dump must equal that of `s` itself (frame check).
use std::{
    collections::BTreeMap,
    sync::Arc,
};

use astria_core::{
    crypto::SigningKey,
    primitive::v1::{
        asset::Denom,
        Address,
        RollupId,
        TransactionId,
    },
    protocol::{
        fees::v1::FeeComponents,
        transaction::v1::{
            action::{
                BridgeLock,
                BridgeSudoChange,
                BridgeTransfer,
                BridgeUnlock,
                FeeAssetChange,
                FeeChange,
                IbcRelayerChange,
                IbcSudoChange,
                InitBridgeAccount,
                RollupDataSubmission,
                SudoAddressChange,
                Transfer,
                ValidatorUpdate,
            },
            Action,
            TransactionBody,
        },
    },
    sequencerblock::v1::block::Deposit,
    Protobuf as _,
};
use bytes::Bytes;
use cnidarium::{
    Snapshot,
    StateDelta,
    StateRead as _,
};
use futures::TryStreamExt as _;
use prost::Message as _;
use serde_json::{
    json,
    Value,
};

use super::io;
use crate::{
    accounts::StateWriteExt as _,
    authority::{
        StateReadExt as _,
        StateWriteExt as _,
    },
    bridge::{
        StateReadExt as _,
        StateWriteExt as _,
    },
    checked_transaction::CheckedTransaction,
    fees::{
        StateReadExt as _,
        StateWriteExt as _,
    },
    ibc::StateWriteExt as _,
    test_utils::{
        astria_address,
        nria,
        Fixture,
    },
};

pub(super) const BIG_CAP: u128 = 3;

pub(super) fn key(i: u64) -> SigningKey {
    // disjoint from ALICE / BOB / CAROL / SUDO used by the repository's tests (BOB has a cfg(test) escape hatch)
    let mut seed = [0x5au8; 32];
    seed[0] = i as u8;
    seed[31] = 0xc3;
    SigningKey::from(seed)
}

pub(super) fn addr(i: u64) -> Address {
    astria_address(key(i).verification_key().address_bytes())
}

pub(super) fn addr_bytes(i: u64) -> [u8; 20] {
    *key(i).verification_key().address_bytes()
}

pub(super) fn denom(name: &str) -> Denom {
    match name {
        "nria" => nria().into(),
        // never "test-0": fee_asset_change has a cfg(test) escape hatch for it
        other => other.parse().unwrap(),
    }
}

pub(super) fn asset_name(ibc_prefixed: &str, assets: &[String]) -> String {
    for a in assets {
        if denom(a).to_ibc_prefixed().to_string() == ibc_prefixed {
            return a.clone();
        }
    }
    format!("unknown:{ibc_prefixed}")
}

pub(super) fn scale(name: &str) -> u128 {
    if name == "big" {
        u128::MAX / BIG_CAP
    } else {
        1
    }
}

pub(super) fn real_amount(model: u64, asset: &str) -> u128 {
    u128::from(model) * scale(asset)
}

pub(super) fn rollup_id_of(i: u64) -> RollupId {
    RollupId::new([i as u8 + 0x70; 32])
}

fn opt_addr(v: &Value) -> Option<Address> {
    match v.as_u64().unwrap() {
        0 => None,
        i => Some(addr(i)),
    }
}

pub(super) fn build_action(a: &Value) -> Action {
    let u = |k: &str| a[k].as_u64().unwrap();
    let s = |k: &str| a[k].as_str().unwrap();
    match s("k") {
        "transfer" => Transfer {
            to: addr(u("to")),
            amount: real_amount(u("amt"), s("asset")),
            asset: denom(s("asset")),
            fee_asset: denom(s("fa")),
        }
        .into(),
        "rollup_data" => RollupDataSubmission {
            rollup_id: RollupId::new([0x33; 32]),
            data: vec![0x11u8; u("sz") as usize].into(),
            fee_asset: denom(s("fa")),
        }
        .into(),
        "bridge_lock" => BridgeLock {
            to: addr(u("to")),
            amount: real_amount(u("amt"), s("asset")),
            asset: denom(s("asset")),
            fee_asset: denom(s("fa")),
            destination_chain_address: "d".to_string(),
        }
        .into(),
        "bridge_unlock" => BridgeUnlock {
            to: addr(u("to")),
            // the bridge's own asset determines the scale; the harness only uses unscaled bridge assets for unlocks
            amount: u128::from(u("amt")),
            fee_asset: denom(s("fa")),
            bridge_address: addr(u("from")),
            memo: "m".to_string(),
            rollup_block_number: 7,
            rollup_withdrawal_event_id: s("ev").to_string(),
        }
        .into(),
        "bridge_transfer" => BridgeTransfer {
            to: addr(u("to")),
            amount: u128::from(u("amt")),
            fee_asset: denom(s("fa")),
            destination_chain_address: "d".to_string(),
            bridge_address: addr(u("from")),
            rollup_block_number: 7,
            rollup_withdrawal_event_id: s("ev").to_string(),
        }
        .into(),
        "bridge_sudo_change" => BridgeSudoChange {
            bridge_address: addr(u("from")),
            new_sudo_address: opt_addr(&a["n1"]),
            new_withdrawer_address: opt_addr(&a["n2"]),
            fee_asset: denom(s("fa")),
            disable_deposits: a["flag"].as_bool().unwrap(),
        }
        .into(),
        "init_bridge" => InitBridgeAccount {
            // the rollup id is a function of the signer in the model; patched in build_tx
            rollup_id: RollupId::new([0; 32]),
            asset: denom(s("asset")),
            fee_asset: denom(s("fa")),
            sudo_address: opt_addr(&a["n1"]),
            withdrawer_address: opt_addr(&a["n2"]),
        }
        .into(),
        "sudo_change" => SudoAddressChange {
            new_address: addr(u("n1")),
        }
        .into(),
        "ibc_sudo_change" => IbcSudoChange {
            new_address: addr(u("n1")),
        }
        .into(),
        "fee_change" => fee_change(s("fk"), u128::from(u("b")), u128::from(u("m"))).into(),
        "fee_asset_change" => {
            if a["flag"].as_bool().unwrap() {
                FeeAssetChange::Addition(denom(s("asset")))
            } else {
                FeeAssetChange::Removal(denom(s("asset")))
            }
        }
        .into(),
        "ibc_relayer_change" => {
            if a["flag"].as_bool().unwrap() {
                IbcRelayerChange::Addition(addr(u("n1")))
            } else {
                IbcRelayerChange::Removal(addr(u("n1")))
            }
        }
        .into(),
        "validator_update" => ValidatorUpdate {
            power: u("amt") as u32,
            verification_key: key(u("n1")).verification_key(),
            name: "v".parse().unwrap(),
        }
        .into(),
        "ics20_withdrawal" => {
            let from = u("from");
            let memo = if from == 0 {
                String::new()
            } else {
                serde_json::to_string(&astria_core::protocol::memos::v1::Ics20WithdrawalFromRollup {
                    rollup_block_number: 7,
                    rollup_withdrawal_event_id: s("ev").to_string(),
                    rollup_return_address: "rollup-return".to_string(),
                    memo: String::new(),
                })
                .unwrap()
            };
            astria_core::protocol::transaction::v1::action::Ics20Withdrawal {
                amount: real_amount(u("amt"), s("asset")),
                denom: denom(s("asset")),
                destination_chain_address: "somewhere-else".to_string(),
                return_address: addr(u("n1")),
                timeout_height: ibc_types::core::client::Height::new(2, 100).unwrap(),
                timeout_time: 200_000_000_000,
                source_channel: ibc_types::core::channel::ChannelId::new(10),
                fee_asset: denom(s("fa")),
                memo,
                bridge_address: if from == 0 { None } else { Some(addr(from)) },
                use_compat_address: false,
            }
            .into()
        }
        "ibc_relay" => Action::Ibc(super::super::tests_app::bad_ibc_relay()),
        "pairs_change" => astria_core::protocol::transaction::v1::action::CurrencyPairsChange::Addition(
            std::iter::once("VERIF/USD".parse::<astria_core::oracles::price_feed::types::v2::CurrencyPair>().unwrap()).collect(),
        )
        .into(),
        "markets_change" => crate::test_utils::dummy_markets_change().into(),
        other => panic!("unknown action kind {other}"),
    }
}

fn fee_change(kind: &str, b: u128, m: u128) -> FeeChange {
    match kind {
        "transfer" => FeeChange::Transfer(FeeComponents::new(b, m)),
        "rollup_data" => FeeChange::RollupDataSubmission(FeeComponents::new(b, m)),
        "bridge_lock" => FeeChange::BridgeLock(FeeComponents::new(b, m)),
        "bridge_unlock" => FeeChange::BridgeUnlock(FeeComponents::new(b, m)),
        "bridge_transfer" => FeeChange::BridgeTransfer(FeeComponents::new(b, m)),
        "bridge_sudo_change" => FeeChange::BridgeSudoChange(FeeComponents::new(b, m)),
        "init_bridge" => FeeChange::InitBridgeAccount(FeeComponents::new(b, m)),
        "sudo_change" => FeeChange::SudoAddressChange(FeeComponents::new(b, m)),
        "fee_change" => FeeChange::FeeChange(FeeComponents::new(b, m)),
        "fee_asset_change" => FeeChange::FeeAssetChange(FeeComponents::new(b, m)),
        "ibc_sudo_change" => FeeChange::IbcSudoChange(FeeComponents::new(b, m)),
        "ibc_relayer_change" => FeeChange::IbcRelayerChange(FeeComponents::new(b, m)),
        "validator_update" => FeeChange::ValidatorUpdate(FeeComponents::new(b, m)),
        "ics20_withdrawal" => FeeChange::Ics20Withdrawal(FeeComponents::new(b, m)),
        "ibc_relay" => FeeChange::IbcRelay(FeeComponents::new(b, m)),
        "pairs_change" => FeeChange::CurrencyPairsChange(FeeComponents::new(b, m)),
        "markets_change" => FeeChange::MarketsChange(FeeComponents::new(b, m)),
        other => panic!("unknown fee kind {other}"),
    }
}

/// Action full names as they appear in the `tx.fees` events -> model kinds.
pub(super) fn kind_of_action_name(name: &str) -> String {
    let short = name.rsplit('.').next().unwrap_or(name);
    match short {
        "Transfer" => "transfer",
        "RollupDataSubmission" => "rollup_data",
        "BridgeLock" => "bridge_lock",
        "BridgeUnlock" => "bridge_unlock",
        "BridgeTransfer" => "bridge_transfer",
        "BridgeSudoChange" => "bridge_sudo_change",
        "InitBridgeAccount" => "init_bridge",
        "Ics20Withdrawal" => "ics20_withdrawal",
        other => return format!("unmodelled:{other}"),
    }
    .to_string()
}

pub(super) fn build_tx_bytes(tx: &Value) -> Bytes {
    let signer = tx["signer"].as_u64().unwrap();
    let actions: Vec<Action> = tx["acts"]
        .as_array()
        .unwrap()
        .iter()
        .map(|a| match build_action(a) {
            Action::InitBridgeAccount(mut init) => {
                init.rollup_id = rollup_id_of(signer);
                init.into()
            }
            other => other,
        })
        .collect();
    let body = TransactionBody::builder()
        .actions(actions)
        .chain_id("test")
        .nonce(tx["nonce"].as_u64().unwrap() as u32)
        .try_build()
        .expect("the specification only generates well-formed action groups");
    let signed = body.sign(&key(signer));
    Bytes::from(signed.into_raw().encode_to_vec())
}

fn put_fee(state: &mut StateDelta<Snapshot>, kind: &str, b: u128, m: u128) {
    match fee_change(kind, b, m) {
        FeeChange::Transfer(f) => state.put_fees(f),
        FeeChange::RollupDataSubmission(f) => state.put_fees(f),
        FeeChange::BridgeLock(f) => state.put_fees(f),
        FeeChange::BridgeUnlock(f) => state.put_fees(f),
        FeeChange::BridgeTransfer(f) => state.put_fees(f),
        FeeChange::BridgeSudoChange(f) => state.put_fees(f),
        FeeChange::InitBridgeAccount(f) => state.put_fees(f),
        FeeChange::SudoAddressChange(f) => state.put_fees(f),
        FeeChange::FeeChange(f) => state.put_fees(f),
        FeeChange::FeeAssetChange(f) => state.put_fees(f),
        FeeChange::IbcSudoChange(f) => state.put_fees(f),
        FeeChange::IbcRelayerChange(f) => state.put_fees(f),
        FeeChange::ValidatorUpdate(f) => state.put_fees(f),
        FeeChange::Ics20Withdrawal(f) => state.put_fees(f),
        FeeChange::IbcRelay(f) => state.put_fees(f),
        FeeChange::CurrencyPairsChange(f) => state.put_fees(f),
        FeeChange::MarketsChange(f) => state.put_fees(f),
        _ => unreachable!(),
    }
    .unwrap();
}

fn assets_of(s: &Value) -> Vec<String> {
    s["bfees"].as_object().unwrap().keys().cloned().collect()
}

fn accounts_of(s: &Value) -> u64 {
    s["nonce"].as_array().unwrap().len() as u64
}

fn set_contains(set: &Value, v: &Value) -> bool {
    set.as_array().unwrap().iter().any(|x| x == v)
}

/// Writes the fields of abstract state `t` into `state`; with `base = Some(s)` only those that differ from `s`.
/// Every Ledger initial state extends the genesis state additively (no bridge accounts, no relayers, no fees except
/// fee_change, only `nria` as fee asset at genesis), so a full write needs no deletions except the ones below.
pub(super) fn materialise(state: &mut StateDelta<Snapshot>, t: &Value, base: Option<&Value>) {
    let differs = |path: &[&str]| -> bool {
        let Some(b) = base else {
            return true;
        };
        let mut x = t;
        let mut y = b;
        for p in path {
            x = &x[*p];
            y = &y[*p];
        }
        x != y
    };
    let assets = assets_of(t);
    let na = accounts_of(t);
    if base.is_none() {
        // denominations other than the native one must be known to the asset registry before a bridge transfer
        // can name them in a deposit
        for asset in &assets {
            if let Denom::TracePrefixed(trace) = denom(asset) {
                crate::assets::StateWriteExt::put_ibc_asset(state, trace).unwrap();
            }
        }
    }
    for a in 1..=na {
        let ai = (a - 1) as usize;
        for asset in &assets {
            let new = &t["bal"][ai][asset];
            if base.map_or(true, |b| &b["bal"][ai][asset] != new) {
                state
                    .put_account_balance(&addr(a), &denom(asset), real_amount(new.as_u64().unwrap(), asset))
                    .unwrap();
            }
        }
        let new = &t["nonce"][ai];
        if base.map_or(true, |b| &b["nonce"][ai] != new) {
            state.put_account_nonce(&addr(a), new.as_u64().unwrap() as u32).unwrap();
        }
        let nb = &t["bridge"][ai];
        if nb["is"].as_bool().unwrap() {
            let ob = base.map(|b| &b["bridge"][ai]);
            let was = ob.map_or(false, |o| o["is"].as_bool().unwrap());
            if !was {
                state.put_bridge_account_rollup_id(&addr(a), rollup_id_of(a)).unwrap();
                state.put_bridge_account_ibc_asset(&addr(a), denom(nb["asset"].as_str().unwrap())).unwrap();
            }
            if !was || ob.unwrap()["sudo"] != nb["sudo"] {
                state
                    .put_bridge_account_sudo_address(&addr(a), addr(nb["sudo"].as_u64().unwrap()))
                    .unwrap();
            }
            if !was || ob.unwrap()["wd"] != nb["wd"] {
                state
                    .put_bridge_account_withdrawer_address(&addr(a), addr(nb["wd"].as_u64().unwrap()))
                    .unwrap();
            }
            // The code writes the disabled flag on every BridgeSudoChange (even when unchanged) and never on
            // init.  A full materialisation therefore always stores the flag, so that re-writing the same value
            // is invisible; a bridge created by a step (was = false) gets no flag, exactly like InitBridgeAccount.
            let new_dis = nb["dis"].as_bool().unwrap();
            let write = match (base.is_none(), was) {
                (true, _) => true,
                (false, true) => ob.unwrap()["dis"].as_bool().unwrap() != new_dis,
                (false, false) => new_dis,
            };
            if write {
                state.put_bridge_account_disabled_status(&addr(a), new_dis).unwrap();
            }
        }
    }
    if differs(&["sudo"]) {
        state.put_sudo_address(addr(t["sudo"].as_u64().unwrap())).unwrap();
    }
    if differs(&["ibcSudo"]) {
        state.put_ibc_sudo_address(addr(t["ibcSudo"].as_u64().unwrap())).unwrap();
    }
    for a in 1..=na {
        let now = set_contains(&t["relayers"], &json!(a));
        let before = base.map_or(false, |b| set_contains(&b["relayers"], &json!(a)));
        if now && !before {
            state.put_ibc_relayer_address(&addr(a)).unwrap();
        } else if !now && before {
            state.delete_ibc_relayer_address(&addr(a));
        }
    }
    for asset in &assets {
        let now = set_contains(&t["feeAssets"], &json!(asset));
        // at genesis only nria is an allowed fee asset
        let before = base.map_or(asset == "nria", |b| set_contains(&b["feeAssets"], &json!(asset)));
        if now && !before {
            state.put_allowed_fee_asset(&denom(asset)).unwrap();
        } else if !now && before {
            state.delete_allowed_fee_asset(&denom(asset));
        }
    }
    for (kind, f) in t["fee"].as_object().unwrap() {
        let changed = base.map_or(true, |b| &b["fee"][kind] != f);
        if changed && f["on"].as_bool().unwrap() {
            // genesis stores fee_change = (0, 0) and nothing else
            if base.is_none() && kind == "fee_change" && f["b"] == 0 && f["m"] == 0 {
                continue;
            }
            put_fee(state, kind, u128::from(f["b"].as_u64().unwrap()), u128::from(f["m"].as_u64().unwrap()));
        }
    }
    for asset in &assets {
        let new = &t["escrow"][asset];
        let changed = base.map_or(new.as_u64().unwrap() > 0, |b| &b["escrow"][asset] != new);
        if changed {
            state
                .put_ibc_channel_balance(
                    &ibc_types::core::channel::ChannelId::new(10),
                    &denom(asset),
                    real_amount(new.as_u64().unwrap(), asset),
                )
                .unwrap();
        }
    }
    for w in t["wdSeen"].as_array().unwrap() {
        if base.map_or(true, |b| !set_contains(&b["wdSeen"], w)) {
            state
                .put_withdrawal_event_rollup_block_number(&addr(w[0].as_u64().unwrap()), w[1].as_str().unwrap(), 7)
                .unwrap();
        }
    }
}

/// Block-ephemeral accumulators and non-state outputs are written through the same entry points the code uses.
pub(super) fn materialise_ephemeral(state: &mut StateDelta<Snapshot>, t: &Value) {
    for (asset, amt) in t["bfees"].as_object().unwrap() {
        let amt = amt.as_u64().unwrap();
        if amt > 0 {
            state
                .add_fee_to_block_fees::<_, Transfer>(&denom(asset), real_amount(amt, asset), 0)
                .unwrap();
        }
    }
    for d in t["deps"].as_array().unwrap() {
        state.cache_deposit_event(model_deposit(d));
    }
    let updates: Vec<ValidatorUpdate> = t["valUpd"]
        .as_array()
        .unwrap()
        .iter()
        .map(|u| ValidatorUpdate {
            power: u[1].as_u64().unwrap() as u32,
            verification_key: key(u[0].as_u64().unwrap()).verification_key(),
            name: "v".parse().unwrap(),
        })
        .collect();
    if !updates.is_empty() {
        state
            .put_block_validator_updates(crate::authority::ValidatorSet::new_from_updates(updates))
            .unwrap();
    }
}

fn model_deposit(d: &Value) -> Deposit {
    let b = d["b"].as_u64().unwrap();
    let asset = d["asset"].as_str().unwrap();
    Deposit {
        bridge_address: addr(b),
        rollup_id: rollup_id_of(b),
        amount: real_amount(d["amt"].as_u64().unwrap(), asset),
        asset: denom(asset),
        destination_chain_address: "d".to_string(),
        source_transaction_id: TransactionId::new([0; 32]),
        source_action_index: 0,
    }
}

/// Complete raw dump of the state (delta over snapshot): verifiable and non-verifiable key spaces.
pub(super) async fn dump(state: &StateDelta<Snapshot>) -> BTreeMap<String, String> {
    let mut out = BTreeMap::new();
    let mut s = Box::pin(state.prefix_raw(""));
    while let Some((k, v)) = s.try_next().await.unwrap() {
        out.insert(format!("v:{k}"), hex::encode(v));
    }
    drop(s);
    let mut s = Box::pin(state.nonverifiable_prefix_raw(b""));
    while let Some((k, v)) = s.try_next().await.unwrap() {
        out.insert(format!("nv:{}", String::from_utf8_lossy(&k)), hex::encode(v));
    }
    out
}

/// Keys the Ledger specification deliberately does not model (each one is named here, in writing):
///  * the validator set / per-block validator updates (spec/Validators.tla; compared through the getter below),
///  * `bridge/.../last_tx`: the id of the last transaction signed by a bridge account (a function of the tx bytes).
///  * penumbra-ibc's own bookkeeping of an outgoing packet (commitment, next send sequence).
///  * the oracle's currency-pair state (`price_feed/`; spec/Oracle.tla and spec/Abci.tla): the ledger model only says who
///    may add a pair.
fn ignored_key(k: &str) -> bool {
    k.contains("validator")
        || k.contains("price_feed/")
        || k.contains("last_tx")
        || k.contains("lasttx")
        || k.contains("commitments/ports/transfer")
        || k.contains("nextSequenceSend")
}

pub(super) fn diff_dumps(real: &BTreeMap<String, String>, model: &BTreeMap<String, String>) -> Vec<String> {
    let mut d = vec![];
    for (k, v) in real {
        if ignored_key(k) {
            continue;
        }
        match model.get(k) {
            None => d.push(format!("+{k}")),
            Some(m) if m != v => d.push(format!("~{k}")),
            _ => {}
        }
    }
    for k in model.keys() {
        if !ignored_key(k) && !real.contains_key(k) {
            d.push(format!("-{k}"));
        }
    }
    d
}

/// block fees (by asset name) and cached deposits (sorted), read back through the code's own getters
pub(super) fn ephemeral(state: &StateDelta<Snapshot>, assets: &[String]) -> Value {
    let fees = state.get_block_fees();
    let mut bfees = serde_json::Map::new();
    for a in assets {
        let real = fees.get(&denom(a).to_ibc_prefixed()).copied().unwrap_or(0);
        let v = if real % scale(a) == 0 {
            json!((real / scale(a)) as u64)
        } else {
            json!(format!("unscaled:{real}"))
        };
        bfees.insert(a.clone(), v);
    }
    let unknown: Vec<String> = fees
        .keys()
        .filter(|k| !assets.iter().any(|a| denom(a).to_ibc_prefixed() == **k))
        .map(ToString::to_string)
        .collect();
    let mut deps: Vec<String> = state
        .get_cached_block_deposits()
        .into_iter()
        .flat_map(|(rid, ds)| {
            ds.into_iter().map(move |d| {
                format!(
                    "{}|{}|{}|{}|{}",
                    hex::encode(rid.as_bytes()),
                    d.bridge_address,
                    d.asset,
                    d.amount,
                    d.destination_chain_address
                )
            })
        })
        .collect();
    deps.sort();
    json!({"bfees": bfees, "unknown_fee_assets": unknown, "deps": deps})
}

pub(super) async fn val_updates(state: &StateDelta<Snapshot>, na: u64) -> Vec<Value> {
    let set = state.get_block_validator_updates().await.unwrap();
    let mut v: Vec<Value> = set
        .updates()
        .map(|u| {
            let who = (1..=na)
                .find(|i| key(*i).verification_key().address_bytes() == u.verification_key.address_bytes())
                .unwrap_or(0);
            json!([who, u.power])
        })
        .collect();
    v.sort_by_key(|x| x.to_string());
    v
}

pub(super) struct World {
    pub(super) fixture: Fixture,
}

impl World {
    pub(super) async fn new() -> Self {
        let mut fixture = Fixture::uninitialized(None).await;
        fixture
            .chain_initializer()
            .with_no_fees()
            .with_authority_sudo_address(addr(1))
            .with_ibc_sudo_address(addr(1))
            .init()
            .await;
        let _ = fixture.run_until_blackburn_applied().await;
        Self {
            fixture,
        }
    }

    pub(super) fn reset(&mut self) {
        let storage = self.fixture.storage();
        self.fixture.app.update_state_for_new_round(&storage);
    }

    /// reset, then install the open IBC channels an Ics20Withdrawal needs (part of every materialised state)
    pub(super) async fn reset_with_channels(&mut self) {
        self.reset();
        super::ibc::install_channels(self).await;
    }
}

fn expected_deps(t: &Value) -> Vec<String> {
    let mut v: Vec<String> = t["deps"]
        .as_array()
        .unwrap()
        .iter()
        .map(|d| {
            let dep = model_deposit(d);
            format!(
                "{}|{}|{}|{}|{}",
                hex::encode(dep.rollup_id.as_bytes()),
                dep.bridge_address,
                dep.asset,
                dep.amount,
                dep.destination_chain_address
            )
        })
        .collect();
    v.sort();
    v
}

async fn run_case(w: &mut World, c: &Value) -> Vec<Value> {
    let s = &c["s"];
    let t = &c["t"];
    let a = &c["a"];
    let assets = assets_of(s);
    let na = accounts_of(s);
    let mut mism = vec![];
    let sig_tx = || -> String {
        let kinds: Vec<&str> =
            a["tx"]["acts"].as_array().unwrap().iter().map(|x| x["k"].as_str().unwrap()).collect();
        kinds.join("+")
    };

    // ---- expected post state, built from the specification alone
    w.reset_with_channels().await;
    materialise(w.fixture.state_mut(), s, None);
    materialise_ephemeral(w.fixture.state_mut(), s);
    materialise(w.fixture.state_mut(), t, Some(s));
    let model_dump = dump(w.fixture.state()).await;

    if a["op"] == "end_block" {
        w.reset_with_channels().await;
        materialise(w.fixture.state_mut(), s, None);
        materialise_ephemeral(w.fixture.state_mut(), s);
        // as App::post_execute_transactions does: the recipient is the sudo address stored at that point
        let recipient = w.fixture.state().get_sudo_address().await.unwrap();
        let r = w.fixture.app.end_block(9, &recipient).await;
        if let Err(e) = r {
            mism.push(json!({"sig": "ledger:end_block:error", "detail": format!("{e:#}")}));
            return mism;
        }
        let real_dump = dump(w.fixture.state()).await;
        let d = diff_dumps(&real_dump, &model_dump);
        if !d.is_empty() {
            mism.push(json!({"sig": "ledger:end_block:state-differs", "detail": {"keys": d}}));
        }
        return mism;
    }

    // ---- construct
    w.reset_with_channels().await;
    let stale = a["stale"].as_bool().unwrap();
    let sc = if stale { &c["sc"] } else { s };
    materialise(w.fixture.state_mut(), sc, None);
    let bytes = build_tx_bytes(&a["tx"]);
    let constructed = CheckedTransaction::new(bytes, w.fixture.state()).await;
    let expected_out = a["out"].as_str().unwrap();
    let tx = match constructed {
        Err(e) => {
            if expected_out != "reject_construct" {
                mism.push(json!({
                    "sig": format!("ledger:{}:outcome:expected={expected_out}:observed=reject_construct", sig_tx()),
                    "detail": {"error": format!("{e:#}"), "tx": a["tx"], "stale": stale},
                }));
            }
            return mism;
        }
        Ok(tx) => Arc::new(tx),
    };
    if expected_out == "reject_construct" {
        mism.push(json!({
            "sig": format!("ledger:{}:outcome:expected=reject_construct:observed=constructed", sig_tx()),
            "detail": {"tx": a["tx"], "stale": stale},
        }));
        return mism;
    }

    // ---- execute on s
    w.reset_with_channels().await;
    materialise(w.fixture.state_mut(), s, None);
    materialise_ephemeral(w.fixture.state_mut(), s);
    let pre_dump = if expected_out == "ok" { None } else { Some(dump(w.fixture.state()).await) };
    let pre_eph = ephemeral(w.fixture.state(), &assets);
    let r = w.fixture.app.execute_transaction(tx).await;
    let observed = if r.is_ok() { "ok" } else { "fail_exec" };
    if observed != expected_out {
        mism.push(json!({
            "sig": format!("ledger:{}:outcome:expected={expected_out}:observed={observed}", sig_tx()),
            "detail": {"tx": a["tx"], "stale": stale, "error": r.as_ref().err().map(|e| format!("{e:#}"))},
        }));
        return mism;
    }
    let real_dump = dump(w.fixture.state()).await;
    let eph = ephemeral(w.fixture.state(), &assets);
    match r {
        Err(_) => {
            // frame check: nothing at all may have changed
            let d = diff_dumps(&real_dump, &pre_dump.unwrap());
            if !d.is_empty() {
                mism.push(json!({"sig": format!("ledger:{}:failed-tx-left-writes", sig_tx()),
                                 "detail": {"keys": d, "tx": a["tx"]}}));
            }
            if eph != pre_eph {
                mism.push(json!({"sig": format!("ledger:{}:failed-tx-left-ephemeral", sig_tx()),
                                 "detail": {"before": pre_eph, "after": eph, "tx": a["tx"]}}));
            }
            // validator updates are outside the dump comparison: read them back
            let vu = val_updates(w.fixture.state(), na).await;
            let mut before: Vec<Value> = s["valUpd"].as_array().unwrap().clone();
            before.sort_by_key(|x| x.to_string());
            if vu != before {
                mism.push(json!({"sig": format!("ledger:{}:failed-tx-left-validator-updates", sig_tx()),
                                 "detail": {"tx": a["tx"], "before": before, "after": vu}}));
            }
        }
        Ok(events) => {
            let d = diff_dumps(&real_dump, &model_dump);
            if !d.is_empty() {
                mism.push(json!({"sig": format!("ledger:{}:state-differs", sig_tx()),
                                 "detail": {"keys": d, "tx": a["tx"], "stale": stale}}));
            }
            // fees: the events are the record of what was charged, in order
            let charged: Vec<Value> = events
                .iter()
                .filter(|e| e.kind == "tx.fees")
                .map(|e| {
                    let get = |k: &str| {
                        e.attributes
                            .iter()
                            .find(|at| at.key_str().unwrap() == k)
                            .map(|at| at.value_str().unwrap().to_string())
                            .unwrap_or_default()
                    };
                    let asset = asset_name(&get("asset"), &assets);
                    let real: u128 = get("feeAmount").parse().unwrap();
                    json!({"asset": asset, "amt": (real / scale(&asset)) as u64, "kind": kind_of_action_name(&get("actionName"))})
                })
                .collect();
            let expected_charged: Vec<Value> = c["charged"]
                .as_array()
                .unwrap()
                .iter()
                .map(|x| json!({"asset": x["asset"], "amt": x["amt"], "kind": x["kind"]}))
                .collect();
            if charged != expected_charged {
                mism.push(json!({"sig": format!("ledger:{}:fees-charged-differ", sig_tx()),
                                 "detail": {"expected": expected_charged, "observed": charged, "tx": a["tx"]}}));
            }
            // ephemeral accumulators
            let exp_bfees = &t["bfees"];
            if &eph["bfees"] != exp_bfees || !eph["unknown_fee_assets"].as_array().unwrap().is_empty() {
                mism.push(json!({"sig": format!("ledger:{}:block-fees-differ", sig_tx()),
                                 "detail": {"expected": exp_bfees, "observed": eph, "tx": a["tx"]}}));
            }
            let exp_deps = expected_deps(t);
            // source tx id / action index are functions of the tx bytes: compare the modelled fields
            let obs_deps: Vec<String> =
                eph["deps"].as_array().unwrap().iter().map(|x| x.as_str().unwrap().to_string()).collect();
            if obs_deps != exp_deps {
                mism.push(json!({"sig": format!("ledger:{}:deposits-differ", sig_tx()),
                                 "detail": {"expected": exp_deps, "observed": obs_deps, "tx": a["tx"]}}));
            }
            let n_dep_events = events.iter().filter(|e| e.kind == "tx.deposit").count();
            let new_deps = t["deps"].as_array().unwrap().len() - s["deps"].as_array().unwrap().len();
            if n_dep_events != new_deps {
                mism.push(json!({"sig": format!("ledger:{}:deposit-events-differ", sig_tx()),
                                 "detail": {"expected": new_deps, "observed": n_dep_events, "tx": a["tx"]}}));
            }
            let vu = val_updates(w.fixture.state(), na).await;
            let mut exp_vu: Vec<Value> = t["valUpd"].as_array().unwrap().clone();
            exp_vu.sort_by_key(|x| x.to_string());
            if vu != exp_vu {
                mism.push(json!({"sig": format!("ledger:{}:validator-updates-differ", sig_tx()),
                                 "detail": {"expected": exp_vu, "observed": vu}}));
            }
        }
    }
    mism
}

#[tokio::test]
async fn ledger_transitions() {
    let cases = io::read_cases();
    let mut out = io::Writer::open();
    let mut w = World::new().await;
    for (k, c) in cases.iter().enumerate() {
        let mism = run_case(&mut w, c).await;
        out.put(&json!({"case": k, "mismatches": mism}));
    }
}

// ---------------------------------------------------------------------------------------------
// block-level replay: a whole block of the specification through the real finalize_block + commit
// ---------------------------------------------------------------------------------------------
fn modelled_key(k: &str) -> bool {
    (k.starts_with("v:accounts/")
        || k.starts_with("v:bridge/account/")
        || k.starts_with("v:bridge/sudo/")
        || k.starts_with("v:bridge/withdrawer/")
        || k.starts_with("v:fees/")
        || k.starts_with("v:authority/sudo")
        || k.starts_with("v:ibc/sudo")
        || k.starts_with("v:ibc/relayer/"))
        && !ignored_key(k)
}

fn only_modelled(d: BTreeMap<String, String>) -> BTreeMap<String, String> {
    d.into_iter().filter(|(k, _)| modelled_key(k)).collect()
}

/// Input: {"s0": state, "steps": [{"a": {...tx...}, "t": state}, ...], "final": state after end_block}
async fn run_block(c: &Value) -> Vec<Value> {
    use tendermint::{
        abci::{
            self,
            types::CommitInfo,
        },
        block::Round,
        Hash,
        Time,
    };
    let mut mism = vec![];
    let s0 = &c["s0"];
    let mut w = World::new().await;
    // make s0 (with the open IBC channels every materialised state has) the committed state
    super::ibc::install_channels(&mut w).await;
    materialise(w.fixture.state_mut(), s0, None);
    let storage = w.fixture.storage();
    w.fixture.app.prepare_commit(storage.clone(), Vec::new()).await.unwrap();
    w.fixture.app.commit(storage.clone()).await.unwrap();

    // expected committed state, from the specification alone
    materialise(w.fixture.state_mut(), &c["final"], Some(s0));
    let expected = only_modelled(dump(w.fixture.state()).await);
    w.reset();

    // the block's transactions, constructed against the block's start state as finalize_block will do
    let mut txs = vec![];
    for st in c["steps"].as_array().unwrap() {
        let bytes = build_tx_bytes(&st["a"]["tx"]);
        match CheckedTransaction::new(bytes, w.fixture.state()).await {
            Ok(tx) => txs.push(Arc::new(tx)),
            Err(e) => {
                mism.push(json!({"sig": "ledger:block:tx-not-constructible-at-block-start",
                                 "detail": {"tx": st["a"]["tx"], "error": format!("{e:#}")}}));
                return mism;
            }
        }
    }
    // The block's commitments cover the deposits its transactions produce.  Like a proposer, obtain them by
    // executing the transactions once; the scratch state is dropped again before the block is finalized.
    for (tx, st) in txs.iter().zip(c["steps"].as_array().unwrap()) {
        if let Err(e) = w.fixture.app.execute_transaction(tx.clone()).await {
            mism.push(json!({"sig": "ledger:block:tx-fails-although-spec-executes-it",
                             "detail": {"tx": st["a"]["tx"], "error": format!("{e:#}")}}));
            return mism;
        }
    }
    let deposits = w.fixture.state().get_cached_block_deposits();
    w.reset();
    let height = w.fixture.block_height().await.increment();
    let finalize = abci::request::FinalizeBlock {
        hash: Hash::Sha256([0x42; 32]),
        height,
        // Fixture::init_active_ibc_client stamps the client's consensus state (and the stored block time) at
        // t = 100 s; a block much later than that would find the client expired
        time: Time::from_unix_timestamp(101, 0).unwrap(),
        next_validators_hash: Hash::default(),
        proposer_address: [0u8; 20].to_vec().try_into().unwrap(),
        txs: crate::test_utils::transactions_with_extended_commit_info_and_commitments(height, &txs, Some(deposits)),
        decided_last_commit: CommitInfo {
            votes: vec![],
            round: Round::default(),
        },
        misbehavior: vec![],
    };
    let resp = match w.fixture.app.finalize_block(finalize, storage.clone()).await {
        Ok(r) => r,
        Err(e) => {
            mism.push(json!({"sig": "ledger:block:finalize-error", "detail": format!("{e:#}")}));
            return mism;
        }
    };
    // per-transaction results: the injected items come first
    let n = txs.len();
    let results = &resp.tx_results[resp.tx_results.len() - n..];
    let mut executed = 0;
    for st in c["steps"].as_array().unwrap() {
        let expected_ok = st["a"]["out"] == "ok";
        // a fatally failing transaction is skipped by finalize_block and gets no result
        if expected_ok {
            executed += 1;
        }
    }
    let ok_results = results.iter().filter(|r| r.code.is_ok()).count();
    if resp.tx_results.len() < n && ok_results != executed {
        mism.push(json!({"sig": "ledger:block:tx-results-differ",
                         "detail": {"expected_ok": executed, "observed_ok": ok_results}}));
    }
    w.fixture.app.commit(storage.clone()).await.unwrap();
    // deposits published with the block: read back from committed storage, per bridge rollup
    let pre_end = c["steps"].as_array().unwrap().last().map_or(s0, |st| &st["t"]);
    let mut obs_deps: Vec<String> = vec![];
    for a in 1..=accounts_of(s0) {
        let rid = rollup_id_of(a);
        for d in w.fixture.state().get_deposits(&[0x42; 32], &rid).await.unwrap() {
            obs_deps.push(format!(
                "{}|{}|{}|{}|{}",
                hex::encode(rid.as_bytes()),
                d.bridge_address,
                d.asset,
                d.amount,
                d.destination_chain_address
            ));
        }
    }
    obs_deps.sort();
    let exp_deps = expected_deps(pre_end);
    if obs_deps != exp_deps {
        mism.push(json!({"sig": "ledger:block:published-deposits-differ", "detail": {"expected": exp_deps, "observed": obs_deps}}));
    }
    let real = only_modelled(dump(w.fixture.state()).await);
    let d = diff_dumps(&real, &expected);
    if !d.is_empty() {
        let kinds: Vec<String> = c["steps"]
            .as_array()
            .unwrap()
            .iter()
            .map(|st| {
                st["a"]["tx"]["acts"].as_array().unwrap().iter().map(|x| x["k"].as_str().unwrap()).collect::<Vec<_>>().join("+")
            })
            .collect();
        mism.push(json!({"sig": format!("ledger:block:committed-state-differs:{}", kinds.join(";")),
                         "detail": {"keys": d, "steps": c["steps"].as_array().unwrap().iter().map(|s| s["a"].clone()).collect::<Vec<_>>()}}));
    }
    mism
}

#[tokio::test]
async fn ledger_blocks() {
    let cases = io::read_cases();
    let mut out = io::Writer::open();
    for (k, c) in cases.iter().enumerate() {
        let mism = run_block(c).await;
        out.put(&json!({"case": k, "mismatches": mism}));
    }
}

