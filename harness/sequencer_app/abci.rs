//! S->I replay of spec/Abci.tla schedules (differential): every legal order of PrepareProposal / ProcessProposal /
//! restart calls TLC enumerated, ending in FinalizeBlock(b) + Commit, is forced on a real `App`; a second real `App`
//! over identical storage only ever sees FinalizeBlock(b) (the syncing node).  Both must produce the same
//! FinalizeBlock response (app hash, per-transaction results, validator and consensus-parameter updates) and the same
//! committed state, or both must fail.
use std::{
    collections::HashMap,
    sync::Arc,
};

use astria_core::{
    generated::price_feed::abci::v2::OracleVoteExtension as RawOracleVoteExtension,
    oracles::price_feed::types::v2::{
        CurrencyPair,
        Price,
    },
    protocol::transaction::v1::action::{
        CurrencyPairsChange,
        Transfer,
    },
};
use bytes::Bytes;
use prost::Message as _;
use serde_json::{
    json,
    Value,
};
use sha2::Digest as _;
use tendermint::{
    abci::{
        self,
        types::{
            BlockSignatureInfo,
            CommitInfo,
            ExtendedCommitInfo,
            ExtendedVoteInfo,
            Validator,
            VoteInfo,
        },
    },
    block::{
        BlockIdFlag,
        Round,
    },
    Hash,
    Time,
};
use tendermint_proto::types::CanonicalVoteExtension;

use super::{
    io,
    ledger::dump,
};
use crate::{
    app::App,
    mempool::Mempool,
    test_utils::{
        astria_address,
        dummy_balances,
        dummy_tx_costs,
        nria,
        Fixture,
        ALICE,
        ALICE_ADDRESS_BYTES,
        SUDO,
    },
};

async fn new_node() -> (Fixture, tendermint::block::Height) {
    let mut fixture = Fixture::uninitialized(None).await;
    fixture.chain_initializer().with_genesis_validators(vec![(ALICE.verification_key(), 100)]).init().await;
    let height = fixture.run_until_blackburn_applied().await;
    (fixture, height)
}

fn pair() -> CurrencyPair {
    "ETH/USD".parse().unwrap()
}

type Txs = Vec<(Arc<crate::checked_transaction::CheckedTransaction>, u32)>;

/// The block's transactions as CheckTx constructs them: against committed state (`f` must be a node that has not
/// executed anything on top of it).  Returned with the account nonce to show the mempool.
async fn build_txs(f: &Fixture, b: &Value) -> Txs {
    let mut out = vec![];
    let mut sudo_nonce = 0;
    let mut alice_nonce = 0;
    for k in b["txs"].as_array().unwrap() {
        let action = match k.as_str().unwrap() {
            "noop" => {
                let tx = f
                    .checked_tx_builder()
                    .with_signer(ALICE.clone())
                    .with_nonce(alice_nonce)
                    .with_action(Transfer {
                        to: astria_address(&[0x31; 20]),
                        amount: 5,
                        asset: nria().into(),
                        fee_asset: nria().into(),
                    })
                    .build()
                    .await;
                alice_nonce += 1;
                out.push((tx, 0));
                continue;
            }
            "removeP" => CurrencyPairsChange::Removal(std::iter::once(pair()).collect()),
            "addQ" => CurrencyPairsChange::Addition(std::iter::once("NEWQ/USD".parse::<CurrencyPair>().unwrap()).collect()),
            other => panic!("unknown tx kind {other}"),
        };
        let tx = f.checked_tx_builder().with_signer(SUDO.clone()).with_nonce(sudo_nonce).with_action(action).build().await;
        sudo_nonce += 1;
        out.push((tx, 0));
    }
    out
}

/// what CheckTx leaves in the proposer's mempool
async fn fill_mempool(f: &Fixture, txs: &Txs) {
    let mempool = f.mempool();
    for (tx, nonce) in txs {
        // a later round re-proposes from the same mempool: the transaction may still be there
        let _ = mempool.insert(tx.clone(), *nonce, &dummy_balances(0, 0), dummy_tx_costs(0, 0, 0)).await;
    }
}

fn block_hash(b: &Value) -> [u8; 32] {
    sha2::Sha256::digest(b.to_string().as_bytes()).into()
}

/// Two blocks that differ only in the evidence they carry have the same time, proposer and last commit.
fn without_evidence(b: &Value) -> Value {
    let mut c = b.clone();
    c["misb"] = json!(false);
    c
}

/// Evidence against the first validator of the set, if the block carries any.
fn misbehavior(b: &Value, height: tendermint::block::Height) -> Vec<abci::types::Misbehavior> {
    if !b["misb"].as_bool().unwrap_or(false) {
        return vec![];
    }
    let _ = height;
    let v = Validator {
        address: *ALICE_ADDRESS_BYTES,
        power: 100u32.into(),
    };
    vec![abci::types::Misbehavior {
        kind: abci::types::MisbehaviorKind::DuplicateVote,
        validator: v,
        height: 1u32.into(),
        time: Time::from_unix_timestamp(1_744_036_000, 0).unwrap(),
        total_voting_power: 100u32.into(),
    }]
}

fn block_time(b: &Value) -> Time {
    Time::from_unix_timestamp(1_744_037_000 + i64::from(block_hash(&without_evidence(b))[0]), 0).unwrap()
}

fn extended_commit(b: &Value, height: tendermint::block::Height) -> ExtendedCommitInfo {
    let votes = if b["prices"].as_bool().unwrap() {
        let mut prices = std::collections::BTreeMap::new();
        let _ = prices.insert(1u64, Price::new(10_000i128).get().to_be_bytes().to_vec().into());
        let ext = RawOracleVoteExtension {
            prices,
        }
        .encode_to_vec();
        let msg = CanonicalVoteExtension {
            extension: ext.clone(),
            height: i64::try_from(height.value()).unwrap() - 1,
            round: 0,
            chain_id: "test".to_string(),
        }
        .encode_length_delimited_to_vec();
        vec![ExtendedVoteInfo {
            validator: Validator {
                address: *ALICE_ADDRESS_BYTES,
                power: 100u32.into(),
            },
            sig_info: BlockSignatureInfo::Flag(BlockIdFlag::Commit),
            vote_extension: ext.into(),
            extension_signature: Some(ALICE.sign(&msg).to_bytes().to_vec().try_into().unwrap()),
        }]
    } else {
        vec![]
    };
    ExtendedCommitInfo {
        round: 0u16.into(),
        votes,
    }
}

fn last_commit(b: &Value, height: tendermint::block::Height) -> CommitInfo {
    CommitInfo {
        round: 0u16.into(),
        votes: extended_commit(b, height)
            .votes
            .into_iter()
            .map(|v| VoteInfo {
                validator: v.validator,
                sig_info: v.sig_info,
            })
            .collect(),
    }
}

fn proposer() -> tendermint::account::Id {
    [0x58u8; 20].to_vec().try_into().unwrap()
}

async fn prepare(f: &mut Fixture, b: &Value, txs: &Txs, height: tendermint::block::Height) -> Result<Vec<Bytes>, String> {
    // the proposer's mempool holds exactly the block's transactions
    fill_mempool(f, txs).await;
    let req = abci::request::PrepareProposal {
        height,
        time: block_time(b),
        next_validators_hash: Hash::default(),
        proposer_address: proposer(),
        txs: vec![],
        max_tx_bytes: 1_000_000,
        local_last_commit: Some(extended_commit(b, height)),
        misbehavior: misbehavior(b, height),
    };
    let storage = f.storage();
    f.app.prepare_proposal(req, storage).await.map(|r| r.txs).map_err(|e| format!("{e:#}"))
}

fn process_req(b: &Value, txs: Vec<Bytes>, height: tendermint::block::Height) -> abci::request::ProcessProposal {
    abci::request::ProcessProposal {
        hash: Hash::Sha256(block_hash(b)),
        height,
        time: block_time(b),
        next_validators_hash: Hash::default(),
        proposer_address: proposer(),
        txs,
        proposed_last_commit: Some(last_commit(b, height)),
        misbehavior: misbehavior(b, height),
    }
}

fn finalize_req(b: &Value, txs: Vec<Bytes>, height: tendermint::block::Height) -> abci::request::FinalizeBlock {
    abci::request::FinalizeBlock {
        hash: Hash::Sha256(block_hash(b)),
        height,
        time: block_time(b),
        next_validators_hash: Hash::default(),
        proposer_address: proposer(),
        txs,
        decided_last_commit: last_commit(b, height),
        misbehavior: misbehavior(b, height),
    }
}

fn summarize(r: &abci::response::FinalizeBlock) -> Value {
    json!({
        "app_hash": hex::encode(r.app_hash.as_bytes()),
        "tx_results": r.tx_results.iter().map(|t| json!({"code": t.code.value(), "events": t.events.len(), "log": t.log})).collect::<Vec<_>>(),
        "validator_updates": r.validator_updates.iter().map(|u| format!("{:?}:{}", u.pub_key, u.power.value())).collect::<Vec<_>>(),
        "consensus_param_updates": format!("{:?}", r.consensus_param_updates),
        "events": r.events.iter().map(|e| format!("{}:{:?}", e.kind, e.attributes.iter().map(|a| format!("{}={}", a.key_str().unwrap_or("?"), a.value_str().unwrap_or("?"))).collect::<Vec<_>>())).collect::<Vec<_>>(),
    })
}

async fn finalize_and_commit(f: &mut Fixture, b: &Value, txs: Vec<Bytes>, height: tendermint::block::Height) -> Value {
    let storage = f.storage();
    match f.app.finalize_block(finalize_req(b, txs, height), storage.clone()).await {
        Err(e) => json!({"error": format!("{e:#}").chars().take(200).collect::<String>()}),
        Ok(r) => {
            f.app.commit(storage).await.unwrap();
            let d = dump(f.state()).await;
            let digest = hex::encode(sha2::Sha256::digest(serde_json::to_vec(&d).unwrap()));
            json!({"response": summarize(&r), "state_digest": digest, "keys": d.len()})
        }
    }
}

async fn run_schedule(c: &Value, blocks: &mut HashMap<String, Vec<Bytes>>, btxs: &mut HashMap<String, Txs>) -> (Vec<Value>, String) {
    let mut mism = vec![];
    let hist = c["hist"].as_array().unwrap();
    // ---- the bytes of every block named in the schedule: what an honest proposer builds from that mempool
    for st in hist {
        let b = &st["b"];
        if st["op"] == "restart" || blocks.contains_key(&b.to_string()) {
            continue;
        }
        let (mut builder, height) = new_node().await;
        let txs = build_txs(&builder, b).await;
        btxs.insert(b.to_string(), txs.clone());
        // the honest part is what an honest proposer builds; a faulty one appends a transfer with a nonce gap
        let mut honest = b.clone();
        honest["bad"] = json!(false);
        match prepare(&mut builder, &honest, &txs, height).await {
            Ok(mut txs) => {
                if b["bad"].as_bool().unwrap_or(false) {
                    let gapped = builder
                        .checked_tx_builder()
                        .with_signer(ALICE.clone())
                        .with_nonce(7)
                        .with_action(Transfer {
                            to: astria_address(&[0x31; 20]),
                            amount: 1,
                            asset: nria().into(),
                            fee_asset: nria().into(),
                        })
                        .build()
                        .await;
                    txs.push(gapped.encoded_bytes().clone());
                }
                blocks.insert(b.to_string(), txs);
            }
            Err(e) => {
                mism.push(json!({"sig": "abci:builder-cannot-prepare", "detail": {"block": b, "error": e}}));
                return (mism, "neither".into());
            }
        }
    }
    let decided = &hist.last().unwrap()["b"];
    // ---- the syncing node: FinalizeBlock only
    let (mut sync, height) = new_node().await;
    let canonical = finalize_and_commit(&mut sync, decided, blocks[&decided.to_string()].clone(), height).await;

    // ---- the node under test: the scheduled calls, then FinalizeBlock
    let (mut node, height2) = new_node().await;
    assert_eq!(height, height2);
    let mut outcome = json!(null);
    for (k, st) in hist.iter().enumerate() {
        let b = &st["b"];
        match st["op"].as_str().unwrap() {
            "prepare" => {
                // between two rounds the mempool's content may change arbitrarily: make it exactly b's transactions
                for txs in btxs.values() {
                    for (tx, _) in txs {
                        node.mempool().remove_tx_invalid(tx.clone(), crate::mempool::RemovalReason::Expired).await;
                    }
                }
                match prepare(&mut node, b, &btxs[&b.to_string()], height).await {
                Ok(txs) => {
                    if txs != blocks[&b.to_string()] {
                        mism.push(json!({"sig": "abci:prepare-not-deterministic", "detail": {"step": k, "block": b}}));
                    }
                }
                Err(e) => mism.push(json!({"sig": "abci:prepare-error", "detail": {"step": k, "block": b, "error": e}})),
                }
            }
            "process" => {
                let storage = node.storage();
                // an unacceptable proposal is refused; the schedule goes on.  The verdict must not depend on what this
                // node saw before.
                let verdict = node.app.process_proposal(process_req(b, blocks[&b.to_string()].clone(), height), storage).await;
                if verdict.is_ok() != st["ok"].as_bool().unwrap() {
                    mism.push(json!({"sig": format!("abci:process-verdict-differs:expected={}", if st["ok"].as_bool().unwrap() { "accept" } else { "reject" }),
                                     "detail": {"step": k, "hist": hist, "error": verdict.err().map(|e| format!("{e:#}").chars().take(200).collect::<String>())}}));
                }
            }
            "restart" => {
                let storage = node.storage();
                let metrics = node.metrics();
                let mempool = Mempool::new(metrics, 100, 100);
                let upgrades = astria_core::upgrades::test_utils::UpgradesBuilder::new()
                    .set_aspen(Some(1))
                    .set_blackburn(Some(3))
                    .build()
                    .into();
                node.app = App::new(
                    storage.latest_snapshot(),
                    mempool,
                    upgrades,
                    crate::app::vote_extension::Handler::new(None),
                    metrics,
                )
                .await
                .unwrap();
            }
            "finalize" => {
                outcome = finalize_and_commit(&mut node, b, blocks[&b.to_string()].clone(), height).await;
            }
            other => panic!("unknown op {other}"),
        }
    }
    let agrees = outcome == canonical;
    let expected_agrees = c["agrees"].as_bool().unwrap();
    let matched = if agrees {
        "design"
    } else if !expected_agrees && c["dev"].as_bool().unwrap() {
        "coded"
    } else {
        "neither"
    };
    if matched == "neither" {
        let path: Vec<String> = hist.iter().map(|s| s["op"].as_str().unwrap().to_string()).collect();
        mism.push(json!({"sig": format!("abci:finalize-differs-from-sync-node:{}", path.join(">")),
                         "detail": {"hist": hist, "this_node": outcome, "sync_node": canonical}}));
    }
    (mism, matched.to_string())
}

#[tokio::test]
async fn abci_schedules() {
    let cases = io::read_cases();
    let mut out = io::Writer::open();
    let mut blocks = HashMap::new();
    let mut btxs = HashMap::new();
    for (k, c) in cases.iter().enumerate() {
        let (mism, matched) = run_schedule(c, &mut blocks, &mut btxs).await;
        out.put(&json!({"case": k, "mismatches": mism, "matched": matched}));
    }
}
