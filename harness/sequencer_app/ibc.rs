//! S->I replay of spec/LedgerIbc.tla transitions: real `Ics20Withdrawal` transactions through
//! `App::execute_transaction`, and the real `Ics20Transfer` handlers (`recv_packet_*`, `timeout_packet_*`,
//! `acknowledge_packet_*`) called the way penumbra calls them (check, then execute), over two installed open
//! channels with an active client.
//!
//! For a step in which a *named deviation* of the code fired (F1 / F2, see LedgerIbc.tla) the specification gives
//! two post-states: `t` (as coded) and `tf` (the intended design).  The harness reports which of them the
//! implementation matches; the check turns "coded" into a KNOWN-FINDING and "neither" into a VIOLATION.
use std::sync::Arc;

use astria_core::{
    primitive::v1::{
        asset::Denom,
        TransactionId,
    },
    protocol::{
        fees::v1::FeeComponents,
        memos::v1::{
            Ics20TransferDeposit,
            Ics20WithdrawalFromRollup,
        },
        transaction::v1::{
            action::Ics20Withdrawal,
            TransactionBody,
        },
    },
    sequencerblock::v1::block::Deposit,
    Protobuf as _,
};
use bytes::Bytes;
use cnidarium::{
    Snapshot,
    StateDelta,
};
use ibc_types::{
    core::{
        channel::{
            self,
            channel::{
                Order,
                State as ChanState,
            },
            msgs::{
                MsgAcknowledgement,
                MsgRecvPacket,
                MsgTimeout,
            },
            packet::Sequence,
            ChannelEnd,
            ChannelId,
            Packet,
            PortId,
            TimeoutHeight,
        },
        client::{
            ClientId,
            Height,
        },
        connection::{
            self,
            ConnectionEnd,
            ConnectionId,
            State as ConnState,
        },
    },
    transfer::acknowledgement::TokenTransferAcknowledgement,
};
use penumbra_ibc::component::{
    app_handler::{
        AppHandlerCheck as _,
        AppHandlerExecute as _,
    },
    ChannelStateWriteExt as _,
    ConnectionStateWriteExt as _,
};
use penumbra_proto::core::component::ibc::v1::FungibleTokenPacketData;
use prost::Message as _;
use serde_json::{
    json,
    Value,
};

use super::{
    io,
    ledger::{
        addr,
        diff_dumps,
        dump,
        key,
        rollup_id_of,
        World,
    },
};
use crate::{
    accounts::StateWriteExt as _,
    bridge::{
        StateReadExt as _,
        StateWriteExt as _,
    },
    checked_transaction::CheckedTransaction,
    fees::StateWriteExt as _,
    ibc::{
        ics20_transfer::Ics20Transfer,
        StateWriteExt as _,
    },
    test_utils::{
        dummy_ibc_client_state,
        nria,
    },
};

const CAP: u64 = 1_000_000;

fn denom(asset: &str) -> Denom {
    match asset {
        "nria" => nria().into(),
        "xfer" => "transfer/channel-10/utia".parse().unwrap(),
        other => panic!("unknown asset {other}"),
    }
}

fn spelled(asset: &str, spell: &str) -> Denom {
    match spell {
        "trace" => denom(asset),
        "ibc" => Denom::IbcPrefixed(denom(asset).to_ibc_prefixed()),
        other => panic!("unknown spelling {other}"),
    }
}

/// model amounts within 10 of the cap stand for amounts within 10 of u128::MAX
fn real(v: u64) -> u128 {
    if v + 10 >= CAP {
        u128::MAX - u128::from(CAP - v.min(CAP))
    } else {
        u128::from(v)
    }
}

fn chan_ids(c: &str) -> (ChannelId, ChannelId) {
    match c {
        // on both chains one channel id is a textual prefix of the other
        "c0" => (ChannelId::new(10), ChannelId::new(70)),
        "c1" => (ChannelId::new(1), ChannelId::new(7)),
        other => panic!("unknown channel {other}"),
    }
}

pub(super) async fn install_channels(w: &mut World) {
    let client_id = ClientId::default();
    w.fixture.init_active_ibc_client(&client_id, dummy_ibc_client_state(3)).await;
    let conn_id = ConnectionId::new(0);
    let conn = ConnectionEnd {
        state: ConnState::Open,
        client_id: client_id.clone(),
        counterparty: connection::Counterparty {
            client_id: client_id.clone(),
            connection_id: Some(ConnectionId::new(0)),
            prefix: Default::default(),
        },
        versions: vec![],
        delay_period: std::time::Duration::from_secs(0),
    };
    w.fixture.state_mut().put_new_connection(&conn_id, conn).await.unwrap();
    for c in ["c0", "c1"] {
        let (ours, theirs) = chan_ids(c);
        let chan = ChannelEnd {
            state: ChanState::Open,
            ordering: Order::Unordered,
            remote: channel::Counterparty::new(PortId::transfer(), Some(theirs)),
            connection_hops: vec![conn_id.clone()],
            version: "ics20-1".to_string().into(),
            upgrade_sequence: 0,
        };
        w.fixture.state_mut().put_channel(&ours, &PortId::transfer(), chan);
        w.fixture.state_mut().put_send_sequence(&ours, &PortId::transfer(), 1);
    }
}

fn materialise(state: &mut StateDelta<Snapshot>, s: &Value) {
    // receiving / refunding the foreign asset by its ibc/ spelling needs it in the asset registry
    if let Denom::TracePrefixed(t) = denom("xfer") {
        crate::assets::StateWriteExt::put_ibc_asset(state, t).unwrap();
    }
    state.put_fees(FeeComponents::<Ics20Withdrawal>::new(0, 0)).unwrap();
    let na = s["bal"].as_array().unwrap().len() as u64;
    for a in 1..=na {
        let ai = (a - 1) as usize;
        for asset in ["nria", "xfer"] {
            state
                .put_account_balance(&addr(a), &denom(asset), real(s["bal"][ai][asset].as_u64().unwrap()))
                .unwrap();
        }
        let b = &s["bridge"][ai];
        if b["is"].as_bool().unwrap() {
            state.put_bridge_account_rollup_id(&addr(a), rollup_id_of(a)).unwrap();
            state.put_bridge_account_ibc_asset(&addr(a), denom(b["asset"].as_str().unwrap())).unwrap();
            state.put_bridge_account_sudo_address(&addr(a), addr(a)).unwrap();
            state
                .put_bridge_account_withdrawer_address(&addr(a), addr(b["wd"].as_u64().unwrap()))
                .unwrap();
            state.put_bridge_account_disabled_status(&addr(a), b["dis"].as_bool().unwrap()).unwrap();
        }
    }
    if s["feeAssets"].as_array().unwrap().iter().any(|x| x == "xfer") {
        state.put_allowed_fee_asset(&denom("xfer")).unwrap();
    }
    for c in ["c0", "c1"] {
        for asset in ["nria", "xfer"] {
            let v = s["escrow"][c][asset].as_u64().unwrap();
            if v > 0 {
                state.put_ibc_channel_balance(&chan_ids(c).0, &denom(asset), real(v)).unwrap();
            }
        }
    }
    for wd in s["wdSeen"].as_array().unwrap() {
        state
            .put_withdrawal_event_rollup_block_number(&addr(wd[0].as_u64().unwrap()), wd[1].as_str().unwrap(), 7)
            .unwrap();
    }
    for d in s["deps"].as_array().unwrap() {
        state.cache_deposit_event(model_deposit(d));
    }
}

fn model_deposit(d: &Value) -> Deposit {
    let b = d["b"].as_u64().unwrap();
    Deposit {
        bridge_address: addr(b),
        rollup_id: rollup_id_of(b),
        amount: real(d["amt"].as_u64().unwrap()),
        asset: denom(d["asset"].as_str().unwrap()),
        destination_chain_address: String::new(),
        source_transaction_id: TransactionId::new([0; 32]),
        source_action_index: 0,
    }
}

/// the abstract view of the state, read back through the code's own getters
async fn project(state: &StateDelta<Snapshot>, like: &Value) -> Value {
    use crate::{
        accounts::StateReadExt as _,
        ibc::StateReadExt as _,
    };
    let na = like["bal"].as_array().unwrap().len() as u64;
    let unreal = |x: u128| -> Value {
        if x > u128::MAX - 20 {
            json!(CAP - (u128::MAX - x) as u64)
        } else if x < u128::from(CAP) {
            json!(x as u64)
        } else {
            json!(format!("out-of-range:{x}"))
        }
    };
    let mut bal = vec![];
    for a in 1..=na {
        let mut m = serde_json::Map::new();
        for asset in ["nria", "xfer"] {
            m.insert(asset.into(), unreal(state.get_account_balance(&addr(a), &denom(asset)).await.unwrap()));
        }
        bal.push(Value::Object(m));
    }
    let mut escrow = serde_json::Map::new();
    for c in ["c0", "c1"] {
        let mut m = serde_json::Map::new();
        for asset in ["nria", "xfer"] {
            m.insert(
                asset.into(),
                unreal(state.get_ibc_channel_balance(&chan_ids(c).0, &denom(asset)).await.unwrap()),
            );
        }
        escrow.insert(c.into(), Value::Object(m));
    }
    let mut wd = vec![];
    for a in 1..=na {
        for ev in ["e1", "e2"] {
            if state.get_withdrawal_event_rollup_block_number(&addr(a), ev).await.unwrap().is_some() {
                wd.push(json!([a, ev]));
            }
        }
    }
    let mut deps: Vec<Value> = state
        .get_cached_block_deposits()
        .into_values()
        .flatten()
        .map(|d| {
            let b = (1..=na).find(|a| addr(*a) == d.bridge_address).unwrap_or(0);
            let asset = ["nria", "xfer"]
                .into_iter()
                .find(|x| denom(x).to_ibc_prefixed() == d.asset.to_ibc_prefixed())
                .unwrap_or("other");
            json!({"b": b, "asset": asset, "amt": unreal(d.amount)})
        })
        .collect();
    deps.sort_by_key(ToString::to_string);
    json!({"bal": bal, "escrow": escrow, "wdSeen": wd, "deps": deps})
}

fn expected_view(t: &Value) -> Value {
    let mut deps: Vec<Value> = t["deps"].as_array().unwrap().clone();
    deps.sort_by_key(ToString::to_string);
    let mut wd: Vec<Value> = t["wdSeen"].as_array().unwrap().clone();
    wd.sort_by_key(|w| (w[0].as_u64().unwrap(), w[1].as_str().unwrap().to_string()));
    json!({"bal": t["bal"], "escrow": t["escrow"], "wdSeen": wd, "deps": deps})
}

fn packet_data_of_outgoing(p: &Value) -> FungibleTokenPacketData {
    let memo = if p["rollup"].as_bool().unwrap() {
        serde_json::to_string(&Ics20WithdrawalFromRollup {
            rollup_block_number: 7,
            rollup_withdrawal_event_id: "e".to_string(),
            rollup_return_address: "rollup-return".to_string(),
            memo: String::new(),
        })
        .unwrap()
    } else {
        String::new()
    };
    FungibleTokenPacketData {
        denom: spelled(p["asset"].as_str().unwrap(), p["spell"].as_str().unwrap()).to_string(),
        sender: addr(p["sender"].as_u64().unwrap()).to_string(),
        amount: real(p["amt"].as_u64().unwrap()).to_string(),
        receiver: "somewhere-else".to_string(),
        memo,
    }
}

fn no_proof() -> ibc_types::core::commitment::MerkleProof {
    ibc_types::core::commitment::MerkleProof {
        proofs: vec![],
    }
}

async fn run_case(w: &mut World, c: &Value) -> Value {
    let s = &c["s"];
    let a = &c["a"];
    let op = a["op"].as_str().unwrap();
    w.reset();
    install_channels(w).await;
    materialise(w.fixture.state_mut(), s);
    let before = dump(w.fixture.state()).await;
    let before_view = project(w.fixture.state(), s).await;

    let observed_out: String = match op {
        "withdraw" => {
            let g = &a["arg"];
            let signer = g["a"].as_u64().unwrap();
            let b = g["b"].as_u64().unwrap();
            let memo = if b == 0 {
                String::new()
            } else {
                serde_json::to_string(&Ics20WithdrawalFromRollup {
                    rollup_block_number: 7,
                    rollup_withdrawal_event_id: g["ev"].as_str().unwrap().to_string(),
                    rollup_return_address: "rollup-return".to_string(),
                    memo: String::new(),
                })
                .unwrap()
            };
            let action = Ics20Withdrawal {
                amount: real(g["amt"].as_u64().unwrap()),
                denom: spelled(g["asset"].as_str().unwrap(), g["spell"].as_str().unwrap()),
                destination_chain_address: "somewhere-else".to_string(),
                return_address: addr(if b == 0 { signer } else { b }),
                timeout_height: Height::new(2, 100).unwrap(),
                timeout_time: 200_000_000_000,
                source_channel: chan_ids(g["chan"].as_str().unwrap()).0,
                fee_asset: nria().into(),
                memo,
                bridge_address: if b == 0 { None } else { Some(addr(b)) },
                use_compat_address: false,
            };
            let body = TransactionBody::builder()
                .actions(vec![action.into()])
                .chain_id("test")
                .nonce(0)
                .try_build()
                .unwrap();
            let bytes = Bytes::from(body.sign(&key(signer)).into_raw().encode_to_vec());
            match CheckedTransaction::new(bytes, w.fixture.state()).await {
                Err(_) => "fail".to_string(),
                Ok(tx) => match w.fixture.app.execute_transaction(Arc::new(tx)).await {
                    Ok(_) => "ok".to_string(),
                    Err(_) => "fail".to_string(),
                },
            }
        }
        "withdraw2" => {
            let g = &a["arg"];
            let signer = g["a"].as_u64().unwrap();
            let mk = |amt: u64| Ics20Withdrawal {
                amount: real(amt),
                denom: denom(g["asset"].as_str().unwrap()),
                destination_chain_address: "somewhere-else".to_string(),
                return_address: addr(signer),
                timeout_height: Height::new(2, 100).unwrap(),
                timeout_time: 200_000_000_000,
                source_channel: chan_ids(g["chan"].as_str().unwrap()).0,
                fee_asset: nria().into(),
                memo: String::new(),
                bridge_address: None,
                use_compat_address: false,
            };
            let body = TransactionBody::builder()
                .actions(vec![mk(g["amt1"].as_u64().unwrap()).into(), mk(g["amt2"].as_u64().unwrap()).into()])
                .chain_id("test")
                .nonce(0)
                .try_build()
                .unwrap();
            let bytes = Bytes::from(body.sign(&key(signer)).into_raw().encode_to_vec());
            match CheckedTransaction::new(bytes, w.fixture.state()).await {
                Err(_) => "fail".to_string(),
                Ok(tx) => match w.fixture.app.execute_transaction(Arc::new(tx)).await {
                    Ok(_) => "ok".to_string(),
                    Err(_) => "fail".to_string(),
                },
            }
        }
        "deliver" => {
            let p = &a["arg"]["p"];
            let (ours, theirs) = chan_ids(p["chan"].as_str().unwrap());
            let packet = Packet {
                sequence: Sequence(p["id"].as_u64().unwrap()),
                port_on_a: PortId::transfer(),
                chan_on_a: ours,
                port_on_b: PortId::transfer(),
                chan_on_b: theirs,
                data: serde_json::to_vec(&packet_data_of_outgoing(p)).unwrap(),
                timeout_height_on_b: TimeoutHeight::Never,
                timeout_timestamp_on_b: ibc_types::timestamp::Timestamp {
                    time: None,
                },
            };
            w.fixture.state_mut().ephemeral_put_ibc_context(TransactionId::new([0; 32]), 0);
            let canonical: Vec<u8> = TokenTransferAcknowledgement::success().into();
            let acknowledgement = match a["arg"]["form"].as_str().unwrap() {
                "canonical" => canonical,
                // the same JSON value written with other white space
                _ => {
                    let v: serde_json::Value = serde_json::from_slice(&canonical).unwrap();
                    let mut b = serde_json::to_vec_pretty(&v).unwrap();
                    b.push(b'\n');
                    b
                }
            };
            let msg = MsgAcknowledgement {
                packet,
                acknowledgement,
                proof_acked_on_b: no_proof(),
                proof_height_on_b: Height::new(0, 1).unwrap(),
                signer: String::new(),
            };
            let res = match Ics20Transfer::acknowledge_packet_check(w.fixture.state(), &msg).await {
                Err(e) => Err(e),
                Ok(()) => Ics20Transfer::acknowledge_packet_execute(w.fixture.state_mut(), &msg).await,
            };
            if res.is_ok() { "ok".to_string() } else { "fail".to_string() }
        }
        "timeout" | "ack_fail" => {
            let p = &a["arg"];
            let (ours, theirs) = chan_ids(p["chan"].as_str().unwrap());
            let packet = Packet {
                sequence: Sequence(p["id"].as_u64().unwrap()),
                port_on_a: PortId::transfer(),
                chan_on_a: ours,
                port_on_b: PortId::transfer(),
                chan_on_b: theirs,
                data: serde_json::to_vec(&packet_data_of_outgoing(p)).unwrap(),
                timeout_height_on_b: TimeoutHeight::Never,
                timeout_timestamp_on_b: ibc_types::timestamp::Timestamp {
                    time: None,
                },
            };
            w.fixture.state_mut().ephemeral_put_ibc_context(TransactionId::new([0; 32]), 0);
            // penumbra: *_check, then *_execute; an error in either fails the IbcRelay action, and the
            // transaction's delta is dropped
            let res = if op == "timeout" {
                let msg = MsgTimeout {
                    packet,
                    next_seq_recv_on_b: Sequence(0),
                    proof_unreceived_on_b: no_proof(),
                    proof_height_on_b: Height::new(0, 1).unwrap(),
                    signer: String::new(),
                };
                match Ics20Transfer::timeout_packet_check(w.fixture.state(), &msg).await {
                    Err(e) => Err(e),
                    Ok(()) => Ics20Transfer::timeout_packet_execute(w.fixture.state_mut(), &msg).await,
                }
            } else {
                let msg = MsgAcknowledgement {
                    packet,
                    acknowledgement: TokenTransferAcknowledgement::Error("it failed over there".to_string()).into(),
                    proof_acked_on_b: no_proof(),
                    proof_height_on_b: Height::new(0, 1).unwrap(),
                    signer: String::new(),
                };
                match Ics20Transfer::acknowledge_packet_check(w.fixture.state(), &msg).await {
                    Err(e) => Err(e),
                    Ok(()) => Ics20Transfer::acknowledge_packet_execute(w.fixture.state_mut(), &msg).await,
                }
            };
            if res.is_ok() { "ok".to_string() } else { "fail".to_string() }
        }
        "recv" => {
            let g = &a["arg"];
            let (ours, theirs) = chan_ids(g["chan"].as_str().unwrap());
            let denom_on_wire = match g["wire"].as_str().unwrap() {
                "nria_back" => format!("transfer/{theirs}/{}", nria()),
                "utia" => "utia".to_string(),
                // a third chain's voucher whose first hop is channel-70 (resp. channel-700), arriving over channel-7 (-70)
                "hop" => format!("transfer/{theirs}0/{}", nria()),
                other => panic!("unknown wire denom {other}"),
            };
            let receiver = match g["rc"].as_str().unwrap() {
                "plain" => addr(g["to"].as_u64().unwrap()).to_string(),
                _ => "not-an-address".to_string(),
            };
            let memo = match g["memo"].as_str().unwrap() {
                "none" => String::new(),
                "valid" => serde_json::to_string(&Ics20TransferDeposit {
                    rollup_deposit_address: String::new() + "rollupaddress",
                })
                .unwrap(),
                _ => "{not json".to_string(),
            };
            let data = FungibleTokenPacketData {
                denom: denom_on_wire,
                sender: "someone-over-there".to_string(),
                amount: real(g["amt"].as_u64().unwrap()).to_string(),
                receiver,
                memo,
            };
            let msg = MsgRecvPacket {
                packet: Packet {
                    sequence: Sequence(5),
                    port_on_a: PortId::transfer(),
                    chan_on_a: theirs,
                    port_on_b: PortId::transfer(),
                    chan_on_b: ours.clone(),
                    data: serde_json::to_vec(&data).unwrap(),
                    timeout_height_on_b: TimeoutHeight::Never,
                    timeout_timestamp_on_b: ibc_types::timestamp::Timestamp {
                        time: None,
                    },
                },
                proof_commitment_on_a: no_proof(),
                proof_height_on_a: Height::new(0, 1).unwrap(),
                signer: String::new(),
            };
            w.fixture.state_mut().ephemeral_put_ibc_context(TransactionId::new([0; 32]), 0);
            let res = match Ics20Transfer::recv_packet_check(w.fixture.state(), &msg).await {
                Err(e) => Err(e),
                Ok(()) => Ics20Transfer::recv_packet_execute(w.fixture.state_mut(), &msg).await,
            };
            match res {
                Err(_) => "handler_error".to_string(),
                Ok(()) => {
                    // which acknowledgement was written?
                    use penumbra_ibc::component::ChannelStateReadExt as _;
                    use sha2::Digest as _;
                    let stored = w
                        .fixture
                        .state()
                        .get_packet_acknowledgement(&PortId::transfer(), &ours, 5)
                        .await
                        .unwrap();
                    let success: Vec<u8> = TokenTransferAcknowledgement::success().into();
                    match stored {
                        None => "no_ack".to_string(),
                        Some(h) if h == sha2::Sha256::digest(&success).to_vec() => "ok".to_string(),
                        Some(_) => "error_ack".to_string(),
                    }
                }
            }
        }
        other => panic!("unknown op {other}"),
    };

    let mut mism = vec![];
    let expected_out = a["out"].as_str().unwrap();
    let dev = a["dev"].as_str().unwrap();
    let tag = format!("{op}:{}", if dev == "none" { "" } else { dev });
    if observed_out != expected_out {
        mism.push(json!({"sig": format!("ibc:{tag}:outcome:expected={expected_out}:observed={observed_out}"),
                         "detail": {"arg": a["arg"]}}));
        return json!({"mismatches": mism, "matched": "neither"});
    }
    let view = project(w.fixture.state(), s).await;
    let after = dump(w.fixture.state()).await;
    let mut matched = "design";
    if expected_out == "fail" {
        // a failed withdrawal / refund is dropped with its transaction: through execute_transaction nothing may
        // remain; for the directly called handlers the caller (penumbra + the tx delta) discards the writes
        if op == "withdraw" || op == "withdraw2" {
            let d = diff_dumps(&after, &before);
            if !d.is_empty() || view != before_view {
                mism.push(json!({"sig": format!("ibc:{tag}:failed-step-left-writes"), "detail": {"keys": d, "arg": a["arg"]}}));
            }
        }
    } else {
        let want = expected_view(&c["t"]);
        if view != want {
            let alt_ok = c["tf"] != "same" && view == expected_view(&c["tf"]);
            if alt_ok {
                matched = "design-not-coded";
            } else {
                mism.push(json!({"sig": format!("ibc:{tag}:state-differs"),
                                 "detail": {"arg": a["arg"], "expected": want, "observed": view}}));
                matched = "neither";
            }
        } else if dev != "none" {
            matched = "coded";
        }
        if expected_out == "error_ack" && dev == "none" {
            // frame check for a refused packet: apart from penumbra's own acknowledgement bookkeeping nothing changes
            let d: Vec<String> = diff_dumps(&after, &before).into_iter().filter(|k| !penumbra_internal(k)).collect();
            if !d.is_empty() {
                mism.push(json!({"sig": format!("ibc:{tag}:refused-packet-left-writes"), "detail": {"keys": d, "arg": a["arg"]}}));
            }
        }
    }
    json!({"mismatches": mism, "matched": matched, "dev": dev, "where": a["arg"]["where"]})
}

/// keys written by penumbra's IBC component itself (packet commitments, acknowledgements, sequences)
fn penumbra_internal(k: &str) -> bool {
    k.contains("ibc-data/") || k.contains("ibc/") && (k.contains("acks/") || k.contains("commitments/") || k.contains("nextSequence"))
}

#[tokio::test]
async fn ibc_transitions() {
    let cases = io::read_cases();
    let mut out = io::Writer::open();
    let mut w = World::new().await;
    for (k, c) in cases.iter().enumerate() {
        let mut r = run_case(&mut w, c).await;
        r["case"] = json!(k);
        out.put(&r);
    }
}
