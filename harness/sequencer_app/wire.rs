//! Exploration harness for spec/Wire.tla: every point of the mutation lattice TLC enumerated (type, field path, kind of
//! change), and pairs of them, is applied to the valid protobuf encoding of a real value -- a signed transaction, and the
//! full, filtered, Celestia-metadata and Celestia-rollup-data forms of a real finalized block -- and handed to the real
//! decoders under `catch_unwind`.  Outcome per case: "error" (parse or validation refused it), "value" (accepted and
//! self-consistent: re-encoding it and decoding that gives the same raw message, all checks passing again), or a
//! violation of the contract: "panic" or "inconsistent".
use std::panic::{
    catch_unwind,
    AssertUnwindSafe,
};

use astria_core::{
    generated::astria::{
        protocol::transaction::v1 as raw_tx,
        sequencerblock::v1 as raw,
    },
    primitive::v1::RollupId,
    protocol::transaction::v1::{
        action::{
            BridgeLock,
            RollupDataSubmission,
            Transfer,
        },
        Transaction,
    },
    sequencerblock::v1::{
        block::FilteredSequencerBlock,
        SequencerBlock,
        SubmittedMetadata,
        SubmittedRollupData,
    },
    Protobuf as _,
};
use bytes::Bytes;
use prost::Message as _;
use serde_json::{
    json,
    Value,
};

use super::io;
use crate::{
    bridge::StateWriteExt as _,
    checked_transaction::CheckedTransaction,
    grpc::StateReadExt as _,
    test_utils::{
        astria_address,
        nria,
        Fixture,
        ALICE,
    },
};

// ------------------------------------------------------------------------------------------------ protobuf wire format

fn read_varint(b: &[u8], at: &mut usize) -> Option<u64> {
    let mut v: u64 = 0;
    for shift in (0..64).step_by(7) {
        let byte = *b.get(*at)?;
        *at += 1;
        v |= u64::from(byte & 0x7f) << shift;
        if byte & 0x80 == 0 {
            return Some(v);
        }
    }
    None
}

fn write_varint(mut v: u64, out: &mut Vec<u8>) {
    loop {
        let byte = (v & 0x7f) as u8;
        v >>= 7;
        if v == 0 {
            out.push(byte);
            return;
        }
        out.push(byte | 0x80);
    }
}

#[derive(Clone)]
struct Field {
    key: u64,         // (field number << 3) | wire type
    payload: Vec<u8>, // varint: its encoding; length-delimited: the content; fixed: the bytes
}

impl Field {
    fn wire_type(&self) -> u64 {
        self.key & 7
    }

    fn encode(&self, out: &mut Vec<u8>) {
        write_varint(self.key, out);
        if self.wire_type() == 2 {
            write_varint(self.payload.len() as u64, out);
        }
        out.extend_from_slice(&self.payload);
    }
}

/// Splits a message into its fields; `None` if the bytes are not a well-formed message.
fn parse(b: &[u8]) -> Option<Vec<Field>> {
    let mut at = 0;
    let mut fields = vec![];
    while at < b.len() {
        let key = read_varint(b, &mut at)?;
        if key >> 3 == 0 {
            return None;
        }
        let payload = match key & 7 {
            0 => {
                let start = at;
                read_varint(b, &mut at)?;
                b[start..at].to_vec()
            }
            1 => {
                let p = b.get(at..at + 8)?.to_vec();
                at += 8;
                p
            }
            2 => {
                let len = read_varint(b, &mut at)? as usize;
                let p = b.get(at..at.checked_add(len)?)?.to_vec();
                at += len;
                p
            }
            5 => {
                let p = b.get(at..at + 4)?.to_vec();
                at += 4;
                p
            }
            _ => return None,
        };
        fields.push(Field {
            key,
            payload,
        });
    }
    Some(fields)
}

fn encode(fields: &[Field]) -> Vec<u8> {
    let mut out = vec![];
    for f in fields {
        f.encode(&mut out);
    }
    out
}

/// Applies `kind` to the field addressed by `path` (indices taken modulo the number of fields at each level; the path
/// stops early at a field that is not itself a message).
fn mutate(b: &[u8], path: &[u64], kind: &str) -> Option<Vec<u8>> {
    let mut fields = parse(b)?;
    if fields.is_empty() {
        return None;
    }
    let i = ((path[0] - 1) as usize) % fields.len();
    if path.len() > 1 && fields[i].wire_type() == 2 {
        if let Some(inner) = parse(&fields[i].payload) {
            if !inner.is_empty() {
                fields[i].payload = mutate(&fields[i].payload, &path[1..], kind)?;
                return Some(encode(&fields));
            }
        }
    }
    let mut out = vec![];
    match kind {
        "delete" => {
            fields.remove(i);
        }
        "duplicate" => {
            let f = fields[i].clone();
            fields.insert(i, f);
        }
        "swap_next" => {
            if i + 1 < fields.len() {
                fields.swap(i, i + 1);
            } else {
                return None;
            }
        }
        "truncate1" => {
            fields[i].payload.pop()?;
        }
        "empty_payload" => {
            if fields[i].wire_type() != 2 || fields[i].payload.is_empty() {
                return None;
            }
            fields[i].payload.clear();
        }
        "extend32" => {
            if fields[i].wire_type() != 2 {
                return None;
            }
            fields[i].payload.extend_from_slice(&[0x5a; 32]);
        }
        "shrink32" => {
            if fields[i].wire_type() != 2 || fields[i].payload.len() < 32 {
                return None;
            }
            let n = fields[i].payload.len() - 32;
            fields[i].payload.truncate(n);
        }
        "flip_first" => {
            *fields[i].payload.first_mut()? ^= 0x01;
        }
        "flip_last" => {
            *fields[i].payload.last_mut()? ^= 0x40;
        }
        "varint_zero" | "varint_plus1" | "varint_max" => {
            if fields[i].wire_type() != 0 {
                return None;
            }
            let mut at = 0;
            let v = read_varint(&fields[i].payload, &mut at)?;
            let nv = match kind {
                "varint_zero" => 0,
                "varint_plus1" => v.wrapping_add(1),
                _ => u64::MAX,
            };
            let mut p = vec![];
            write_varint(nv, &mut p);
            fields[i].payload = p;
        }
        // the declared length disagrees with the content: written out by hand
        "len_plus1" | "len_minus1" | "cut_here" => {
            for (k, f) in fields.iter().enumerate() {
                if k != i {
                    f.encode(&mut out);
                    continue;
                }
                if kind == "cut_here" {
                    // the message ends in the middle of this field
                    write_varint(f.key, &mut out);
                    if f.wire_type() == 2 {
                        write_varint(f.payload.len() as u64, &mut out);
                    }
                    out.extend_from_slice(&f.payload[..f.payload.len() / 2]);
                    return Some(out);
                }
                if f.wire_type() != 2 {
                    return None;
                }
                write_varint(f.key, &mut out);
                let len = f.payload.len() as u64;
                write_varint(if kind == "len_plus1" { len + 1 } else { len.checked_sub(1)? }, &mut out);
                out.extend_from_slice(&f.payload);
            }
            return Some(out);
        }
        _ => return None,
    }
    Some(encode(&fields))
}

// ------------------------------------------------------------------------------------------------ base values

struct Bases {
    fixture: Fixture,
    tx: Vec<u8>,
    full: Vec<u8>,
    filtered: Vec<u8>,
    filtered_empty: Vec<u8>,
    metadata: Vec<u8>,
    rollupdata: Vec<u8>,
}

async fn bases() -> Bases {
    use tendermint::{
        abci::{
            self,
            types::CommitInfo,
        },
        block::Round,
        Hash,
        Time,
    };
    let mut fixture = Fixture::default_initialized().await;
    let bridge = astria_address(&[101; 20]);
    fixture.state_mut().put_bridge_account_rollup_id(&bridge, RollupId::new([1; 32])).unwrap();
    fixture.state_mut().put_bridge_account_ibc_asset(&bridge, nria()).unwrap();
    fixture.app.prepare_commit(fixture.storage(), Vec::new()).await.unwrap();
    fixture.app.commit(fixture.storage()).await.unwrap();
    let tx = fixture
        .checked_tx_builder()
        .with_signer(ALICE.clone())
        .with_nonce(0)
        .with_action(RollupDataSubmission {
            rollup_id: RollupId::new([1; 32]),
            data: Bytes::from_static(b"first payload"),
            fee_asset: nria().into(),
        })
        .with_action(RollupDataSubmission {
            rollup_id: RollupId::new([2; 32]),
            data: Bytes::from_static(b"second payload"),
            fee_asset: nria().into(),
        })
        .with_action(RollupDataSubmission {
            rollup_id: RollupId::new([3; 32]),
            data: Bytes::from_static(b"third payload"),
            fee_asset: nria().into(),
        })
        .with_action(BridgeLock {
            to: bridge,
            amount: 5,
            asset: nria().into(),
            fee_asset: nria().into(),
            destination_chain_address: "over-there".to_string(),
        })
        .with_action(Transfer {
            to: astria_address(&[0x31; 20]),
            amount: 3,
            asset: nria().into(),
            fee_asset: nria().into(),
        })
        .build()
        .await;
    fixture.app.execute_transaction(tx.clone()).await.unwrap();
    let deposits = {
        use crate::bridge::StateReadExt as _;
        fixture.state().get_cached_block_deposits()
    };
    let storage = fixture.storage();
    fixture.app.update_state_for_new_round(&storage);
    let height = fixture.block_height().await.increment();
    let finalize = abci::request::FinalizeBlock {
        hash: Hash::Sha256([0x42; 32]),
        height,
        time: Time::from_unix_timestamp(101, 0).unwrap(),
        next_validators_hash: Hash::default(),
        proposer_address: [0u8; 20].to_vec().try_into().unwrap(),
        txs: crate::test_utils::transactions_with_extended_commit_info_and_commitments(height, &[tx], Some(deposits)),
        decided_last_commit: CommitInfo {
            votes: vec![],
            round: Round::default(),
        },
        misbehavior: vec![],
    };
    fixture.app.finalize_block(finalize, storage.clone()).await.unwrap();
    fixture.app.commit(storage.clone()).await.unwrap();
    let block = fixture.state().get_sequencer_block_by_height(height.value()).await.unwrap();
    let full = block.clone().into_raw().encode_to_vec();
    let filtered = block
        .clone()
        .into_filtered_block([RollupId::new([1; 32]), RollupId::new([2; 32]), RollupId::new([3; 32])])
        .into_raw()
        .encode_to_vec();
    // what a client gets that asked for a rollup without data in the block
    let filtered_empty = block.clone().into_filtered_block([RollupId::new([9; 32])]).into_raw().encode_to_vec();
    // a transaction that is still fresh for CheckTx after that block (nonce 1)
    let tx_bytes = fixture
        .checked_tx_builder()
        .with_signer(ALICE.clone())
        .with_nonce(1)
        .with_action(Transfer {
            to: astria_address(&[0x31; 20]),
            amount: 3,
            asset: nria().into(),
            fee_asset: nria().into(),
        })
        .with_action(RollupDataSubmission {
            rollup_id: RollupId::new([1; 32]),
            data: Bytes::from_static(b"later payload"),
            fee_asset: nria().into(),
        })
        .build()
        .await
        .encoded_bytes()
        .to_vec();
    let (meta, datas) = block.split_for_celestia();
    let metadata = meta.into_raw().encode_to_vec();
    let rollupdata = datas.into_iter().next().unwrap().into_raw().encode_to_vec();
    Bases {
        fixture,
        tx: tx_bytes,
        full,
        filtered,
        filtered_empty,
        metadata,
        rollupdata,
    }
}

/// "error", "value", "panic:<where>" or "inconsistent:<what>"
async fn decode(b: &Bases, ty: &str, bytes: &[u8]) -> String {
    macro_rules! contract {
        ($raw:ty, $checked:ty) => {
            contract!($raw, $checked, |_v: &$checked| -> Option<&'static str> { None })
        };
        ($raw:ty, $checked:ty, $stated:expr) => {{
            (|| -> String {
            let raw = match catch_unwind(AssertUnwindSafe(|| <$raw>::decode(bytes))) {
                Err(_) => return "panic:parse".to_string(),
                Ok(Err(_)) => return "error".to_string(),
                Ok(Ok(r)) => r,
            };
            let value = match catch_unwind(AssertUnwindSafe(|| <$checked>::try_from_raw(raw))) {
                Err(_) => return "panic:validate".to_string(),
                Ok(Err(_)) => return "error".to_string(),
                Ok(Ok(v)) => v,
            };
            // an accepted value satisfies the type's stated checks (evaluated here with the public accessors, not by
            // asking the decoder again)
            match catch_unwind(AssertUnwindSafe(|| $stated(&value))) {
                Err(_) => return "panic:stated-checks".to_string(),
                Ok(Some(what)) => return format!("inconsistent:{what}"),
                Ok(None) => {}
            }
            // an accepted value is self-consistent
            let again = match catch_unwind(AssertUnwindSafe(|| {
                let r2 = value.into_raw();
                let bytes2 = r2.encode_to_vec();
                let r3 = <$raw>::decode(&*bytes2).map_err(|_| "reencoded form does not parse")?;
                if r3 != r2 {
                    return Err("reencoded form parses to another message");
                }
                let v2 = <$checked>::try_from_raw(r3).map_err(|_| "reencoded form fails the type's checks")?;
                if v2.into_raw() != r2 {
                    return Err("decoding the reencoded form gives another value");
                }
                Ok(())
            })) {
                Err(_) => return "panic:reencode".to_string(),
                Ok(r) => r,
            };
            match again {
                Ok(()) => "value".to_string(),
                Err(what) => format!("inconsistent:{what}"),
            }
            })()
        }};
    }
    match ty {
        "full" => contract!(raw::SequencerBlock, SequencerBlock, |v: &SequencerBlock| {
            use sha2::Digest as _;
            let h = v.header();
            if !v.rollup_transactions_proof().verify(&sha2::Sha256::digest(h.rollup_transactions_root()), *h.data_hash()) {
                return Some("rollup transactions root is not proven against the data hash");
            }
            for rt in v.rollup_transactions().values() {
                if !rt.proof()
                    .audit()
                    .with_root(*h.rollup_transactions_root())
                    .with_leaf_builder()
                    .write(rt.rollup_id().as_bytes())
                    .write(&merkle::Tree::from_leaves(rt.transactions()).root())
                    .finish_leaf()
                    .perform()
                {
                    return Some("a rollup's transactions are not proven against the rollup transactions root");
                }
            }
            None
        }),
        "filtered" | "filtered_empty" => contract!(raw::FilteredSequencerBlock, FilteredSequencerBlock, |v: &FilteredSequencerBlock| {
            use sha2::Digest as _;
            let h = v.header();
            if !v.rollup_transactions_proof().verify(&sha2::Sha256::digest(v.rollup_transactions_root()), *h.data_hash()) {
                return Some("rollup transactions root is not proven against the data hash");
            }
            for rt in v.rollup_transactions().values() {
                if !rt
                    .proof()
                    .audit()
                    .with_root(*v.rollup_transactions_root())
                    .with_leaf_builder()
                    .write(rt.rollup_id().as_bytes())
                    .write(&merkle::Tree::from_leaves(rt.transactions()).root())
                    .finish_leaf()
                    .perform()
                {
                    return Some("a rollup's transactions are not proven against the rollup transactions root");
                }
            }
            None
        }),
        "metadata" => contract!(raw::SubmittedMetadata, SubmittedMetadata),
        "rollupdata" => contract!(raw::SubmittedRollupData, SubmittedRollupData),
        "tx" => {
            // the client-side type, then the sequencer's CheckTx entry point on the same bytes
            let first: String = contract!(raw_tx::Transaction, Transaction);
            if first.starts_with("panic") || first.starts_with("inconsistent") {
                return first;
            }
            let owned = Bytes::copy_from_slice(bytes);
            let state = b.fixture.state();
            use futures::FutureExt as _;
            match AssertUnwindSafe(CheckedTransaction::new(owned, state)).catch_unwind().await {
                Err(_) => "panic:checked_transaction".to_string(),
                Ok(Ok(tx)) => {
                    use sha2::Digest as _;
                    // what the sequencer keys everything by must be the digest of the bytes it keeps
                    if tx.encoded_bytes().as_ref() != bytes {
                        "inconsistent:checked transaction keeps other bytes than it was decoded from".to_string()
                    } else if tx.id().get() != <[u8; 32]>::from(sha2::Sha256::digest(bytes)) {
                        "inconsistent:transaction id is not the digest of the transaction's bytes".to_string()
                    } else {
                        "value".to_string()
                    }
                }
                Ok(Err(_)) => first,
            }
        }
        other => panic!("unknown type {other}"),
    }
}

#[tokio::test]
async fn wire_cases() {
    let cases = io::read_cases();
    let mut out = io::Writer::open();
    let b = bases().await;
    // the unmutated encodings are accepted (the transaction by the client-side type)
    for ty in ["tx", "full", "filtered", "filtered_empty", "metadata", "rollupdata"] {
        let base = match ty {
            "tx" => &b.tx,
            "full" => &b.full,
            "filtered" => &b.filtered,
            "filtered_empty" => &b.filtered_empty,
            "metadata" => &b.metadata,
            _ => &b.rollupdata,
        };
        let o = decode(&b, ty, base).await;
        out.put(&json!({"i": format!("base:{ty}"), "outcome": o, "applied": true}));
    }
    for c in &cases {
        let ty = c["ty"].as_str().unwrap();
        let mut bytes = match ty {
            "tx" => b.tx.clone(),
            "full" => b.full.clone(),
            "filtered" => b.filtered.clone(),
            "filtered_empty" => b.filtered_empty.clone(),
            "metadata" => b.metadata.clone(),
            _ => b.rollupdata.clone(),
        };
        let mut applied = true;
        for m in c["muts"].as_array().unwrap() {
            let path: Vec<u64> = m["path"].as_array().unwrap().iter().map(|v| v.as_u64().unwrap()).collect();
            match mutate(&bytes, &path, m["kind"].as_str().unwrap()) {
                Some(nb) => bytes = nb,
                None => {
                    applied = false;
                    break;
                }
            }
        }
        if !applied {
            out.put(&json!({"i": c["id"], "outcome": "n/a", "applied": false}));
            continue;
        }
        let o = decode(&b, ty, &bytes).await;
        let detail: Value = if o == "error" || o == "value" { Value::Null } else { json!(hex::encode(&bytes)) };
        out.put(&json!({"i": c["id"], "outcome": o, "applied": true, "bytes": detail}));
    }
}
