//! S->I replay of spec/Validators.tla behaviours: blocks of sudo-signed `ValidatorUpdate` transactions through the
//! real `finalize_block` + `commit`, post-Aspen (individual validator storage) and pre-Aspen (legacy set).
//! After every block the harness compares the returned update batch, the stored set and count with the
//! specification, and independently folds the batch into a CometBFT-style validator set (remove requires presence,
//! the set must not become empty).
use std::{
    collections::{
        BTreeMap,
        HashMap,
    },
    sync::Arc,
};

use astria_core::{
    crypto::SigningKey,
    protocol::transaction::v1::{
        action::ValidatorUpdate,
        TransactionBody,
    },
    sequencerblock::v1::DataItem,
    upgrades::{
        test_utils::UpgradesBuilder,
        v1::Change,
    },
    Protobuf as _,
};
use bytes::Bytes;
use prost::Message as _;
use serde_json::{
    json,
    Value,
};
use tendermint::{
    abci::{
        self,
        types::CommitInfo,
    },
    block::Round,
    Hash,
    Time,
};

use super::io;
use crate::{
    authority::StateReadExt as _,
    checked_transaction::CheckedTransaction,
    proposal::commitment::generate_rollup_datas_commitment,
    test_utils::{
        astria_address,
        Fixture,
    },
};

fn vkey(i: u64) -> SigningKey {
    let mut seed = [0x77u8; 32];
    seed[0] = i as u8;
    SigningKey::from(seed)
}

fn sudo() -> SigningKey {
    SigningKey::from([0x5d; 32])
}

fn key_index(address: &[u8], nkeys: u64) -> u64 {
    (1..=nkeys).find(|i| vkey(*i).verification_key().address_bytes().as_slice() == address).unwrap_or(0)
}

async fn run_behaviour(c: &Value) -> (usize, Vec<Value>, String) {
    let post_aspen = c["post_aspen"].as_bool().unwrap();
    let genesis: Vec<u64> = c["genesis"].as_array().unwrap().iter().map(|x| x.as_u64().unwrap()).collect();
    let nkeys = genesis.len() as u64;
    // a history that crosses the upgrade: legacy blocks, then Aspen activates at `aspen_height`
    let aspen_height = c["aspen_height"].as_u64();
    let upgrades = if post_aspen {
        None
    } else if let Some(h) = aspen_height {
        Some(UpgradesBuilder::new().set_aspen(Some(h)).set_blackburn(Some(h + 40)).build())
    } else {
        // the legacy validator-set storage is in force until Aspen activates
        Some(UpgradesBuilder::new().set_aspen(Some(9)).set_blackburn(Some(10)).build())
    };
    let mut fixture = Fixture::uninitialized(upgrades).await;
    fixture
        .chain_initializer()
        .with_authority_sudo_address(astria_address(sudo().verification_key().address_bytes()))
        .with_genesis_validators(
            genesis
                .iter()
                .enumerate()
                .filter(|(_, p)| **p > 0)
                .map(|(i, p)| (vkey(i as u64 + 1).verification_key(), *p as u32)),
        )
        .init()
        .await;
    if post_aspen {
        let _ = fixture.run_until_blackburn_applied().await;
    }
    let storage = fixture.storage();
    // the harness's own CometBFT: genesis folded with every returned batch
    let mut comet: BTreeMap<u64, u64> = genesis.iter().enumerate().filter(|(_, p)| **p > 0).map(|(i, p)| (i as u64 + 1, *p)).collect();
    let mut mism = vec![];
    let mut matched = "design".to_string();
    let mut nonce = 0u32;
    let mut block: Vec<&Value> = vec![];
    let steps = c["steps"].as_array().unwrap();
    let mut seed = 0u8;
    for (k, st) in steps.iter().enumerate() {
        let a = &st["a"];
        if a["op"] == "update" {
            block.push(st);
            continue;
        }
        // ---- end_block: run the collected updates as one block
        let mut txs = vec![];
        let mut n = nonce;
        for u in &block {
            let v = u["a"]["v"].as_u64().unwrap();
            let body = TransactionBody::builder()
                .actions(vec![ValidatorUpdate {
                    power: u["a"]["p"].as_u64().unwrap() as u32,
                    verification_key: vkey(v).verification_key(),
                    name: format!("v{v}").parse().unwrap(),
                }
                .into()])
                .chain_id("test")
                .nonce(n)
                .try_build()
                .unwrap();
            let bytes = Bytes::from(body.sign(&sudo()).into_raw().encode_to_vec());
            match CheckedTransaction::new(bytes, fixture.state()).await {
                Ok(tx) => txs.push(Arc::new(tx)),
                Err(e) => {
                    mism.push(json!({"sig": "validators:update-not-constructible-at-block-start",
                                     "detail": {"step": k, "update": u["a"], "error": format!("{e:#}")}}));
                    return (steps.len(), mism, matched);
                }
            }
            // a transaction the specification expects to fail does not consume its nonce
            if u["a"]["out"] == "ok" {
                n += 1;
            }
        }
        nonce = n;
        block.clear();
        seed += 1;
        let height = fixture.block_height().await.increment();
        // the storage format in force while this block runs
        let post_aspen = aspen_height.map_or(post_aspen, |h| height.value() >= h);
        if post_aspen != st["post"].as_bool().unwrap() {
            panic!("behaviour and activation height disagree at step {k}");
        }
        let block_txs: Vec<Bytes> = if let Some(h) = aspen_height.filter(|h| height.value() >= *h) {
            // the activation block carries the upgrade's change hashes; extended commit info starts two blocks later
            let commitments = generate_rollup_datas_commitment::<true>(&txs, HashMap::new());
            let hashes = (height.value() == h).then(|| {
                let aspen = fixture.app.upgrades_handler().upgrades().aspen().unwrap().clone();
                DataItem::UpgradeChangeHashes(aspen.changes().map(Change::calculate_hash).collect()).encode()
            });
            let eci = (height.value() > h + 1).then(|| {
                let info = astria_core::protocol::price_feed::v1::ExtendedCommitInfoWithCurrencyPairMapping::empty(
                    0u16.into(),
                );
                DataItem::ExtendedCommitInfo(info.into_raw().encode_to_vec().into()).encode()
            });
            commitments
                .into_iter()
                .chain(hashes)
                .chain(eci)
                .chain(txs.iter().map(|tx| tx.encoded_bytes().clone()))
                .collect()
        } else if post_aspen {
            crate::test_utils::transactions_with_extended_commit_info_and_commitments(height, &txs, None)
        } else {
            generate_rollup_datas_commitment::<false>(&txs, HashMap::new())
                .into_iter()
                .chain(txs.iter().map(|tx| tx.encoded_bytes().clone()))
                .collect()
        };
        let finalize = abci::request::FinalizeBlock {
            hash: Hash::Sha256([seed; 32]),
            height,
            time: Time::from_unix_timestamp(1_744_040_000 + i64::from(seed), 0).unwrap(),
            next_validators_hash: Hash::default(),
            proposer_address: [0u8; 20].to_vec().try_into().unwrap(),
            txs: block_txs,
            decided_last_commit: CommitInfo {
                votes: vec![],
                round: Round::default(),
            },
            misbehavior: vec![],
        };
        let resp = match fixture.app.finalize_block(finalize, storage.clone()).await {
            Ok(r) => r,
            Err(e) => {
                mism.push(json!({"sig": "validators:finalize-error", "detail": {"step": k, "error": format!("{e:#}")}}));
                return (steps.len(), mism, matched);
            }
        };
        fixture.app.commit(storage.clone()).await.unwrap();
        // ---- the returned batch
        let mut batch: Vec<(u64, u64)> = resp
            .validator_updates
            .iter()
            .map(|u| {
                let addr = tendermint::account::Id::from(u.pub_key);
                (key_index(addr.as_bytes(), nkeys), u.power.value())
            })
            .collect();
        batch.sort();
        let mut want: Vec<(u64, u64)> =
            a["batch"].as_array().unwrap().iter().map(|x| (x[0].as_u64().unwrap(), x[1].as_u64().unwrap())).collect();
        want.sort();
        if batch != want {
            mism.push(json!({"sig": "validators:returned-batch-differs",
                             "detail": {"step": k, "expected": want, "observed": batch}}));
            return (steps.len(), mism, matched);
        }
        // ---- CometBFT applies it
        let mut comet_err = "";
        let mut next = comet.clone();
        for (v, p) in &batch {
            if *p == 0 {
                if next.remove(v).is_none() {
                    comet_err = "remove-unknown-validator";
                }
            } else {
                next.insert(*v, *p);
            }
        }
        if comet_err.is_empty() && next.is_empty() {
            comet_err = "empty-validator-set";
        }
        let want_err = st["t"]["err"].as_str().unwrap();
        if comet_err != want_err {
            mism.push(json!({"sig": format!("validators:cometbft-apply:expected={want_err}:observed={comet_err}"),
                             "detail": {"step": k, "batch": batch}}));
            return (steps.len(), mism, matched);
        }
        if !comet_err.is_empty() {
            // the specification predicted this inapplicable batch (a named deviation) and the code produced it
            matched = format!("coded:{}", st["dev"].as_str().unwrap());
            return (steps.len(), mism, matched);
        }
        comet = next;
        // ---- the application's own set and count
        let mut stored: BTreeMap<u64, u64> = BTreeMap::new();
        if post_aspen {
            for v in 1..=nkeys {
                if let Some(val) = fixture.state().get_validator(vkey(v).verification_key().address_bytes()).await.unwrap() {
                    stored.insert(v, u64::from(val.power));
                }
            }
        } else {
            let set = fixture.state().pre_aspen_get_validator_set().await.unwrap();
            for u in set.updates() {
                stored.insert(key_index(u.verification_key.address_bytes(), nkeys), u64::from(u.power));
            }
        }
        let want_stored: BTreeMap<u64, u64> = st["t"]["st"]["stored"]
            .as_array()
            .unwrap()
            .iter()
            .enumerate()
            .filter(|(_, p)| p.as_u64().unwrap() > 0)
            .map(|(i, p)| (i as u64 + 1, p.as_u64().unwrap()))
            .collect();
        if stored != want_stored {
            mism.push(json!({"sig": "validators:stored-set-differs",
                             "detail": {"step": k, "expected": want_stored, "observed": stored}}));
            return (steps.len(), mism, matched);
        }
        if stored != comet {
            mism.push(json!({"sig": "validators:cometbft-set-differs-from-stored",
                             "detail": {"step": k, "comet": comet, "stored": stored}}));
        }
        if post_aspen {
            let count = fixture.state().get_validator_count().await.unwrap();
            if count != st["t"]["st"]["count"].as_u64().unwrap() || count != stored.len() as u64 {
                mism.push(json!({"sig": "validators:count-differs",
                                 "detail": {"step": k, "count": count, "stored": stored.len()}}));
            }
        }
        if !fixture.state().get_block_validator_updates().await.unwrap().len() == 0 {
            mism.push(json!({"sig": "validators:block-updates-not-cleared", "detail": {"step": k}}));
        }
        if !mism.is_empty() {
            break;
        }
    }
    (steps.len(), mism, matched)
}

#[tokio::test]
async fn validators_blocks() {
    let cases = io::read_cases();
    let mut out = io::Writer::open();
    for (k, c) in cases.iter().enumerate() {
        let (steps, mism, matched) = run_behaviour(c).await;
        out.put(&json!({"case": k, "steps": steps, "mismatches": mism, "matched": matched}));
    }
}
