//! verif harness entry for sequencer_app (compiled into the repo crate under cfg(all(test, feature = "verif"))).
#[test]
fn smoke() {}
