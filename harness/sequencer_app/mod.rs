//! verif harness modules compiled into `astria_sequencer::app` (under cfg(all(test, feature = "verif"))).
#![allow(clippy::all, clippy::pedantic, dead_code, unused_imports)]
#[path = "/verif/harness/common/io.rs"]
mod io;
mod ibc;
mod abci;
mod ledger;
mod oracle;
mod proposal;
mod rollupdata;
mod validators;
mod wire;
