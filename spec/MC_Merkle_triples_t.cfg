CONSTANTS N = 0  W = 8  Dup = FALSE  Mode = "triples"  CheckedDecode = TRUE
INIT Init
NEXT Next
INVARIANTS Total Export
CHECK_DEADLOCK FALSE
