---- MODULE LedgerIbc_TTrace_1790049292 ----
EXTENDS Sequences, TLCExt, Toolbox, Naturals, TLC, LedgerIbc

_expression ==
    LET LedgerIbc_TEExpression == INSTANCE LedgerIbc_TEExpression
    IN LedgerIbc_TEExpression!expression
----

_trace ==
    LET LedgerIbc_TETrace == INSTANCE LedgerIbc_TETrace
    IN LedgerIbc_TETrace!trace
----

_inv ==
    ~(
        TLCGet("level") = Len(_TETrace)
        /\
        wdSeen = ({})
        /\
        ops = (1)
        /\
        last = ([op |-> "recv", arg |-> [chan |-> "c0", amt |-> 1, wire |-> "nria_back", to |-> 3, rc |-> "plain", memo |-> "valid", where |-> "escrow"], out |-> "error_ack", dev |-> "F1"])
        /\
        alt = ([bal |-> <<[nria |-> 10, xfer |-> 10], [nria |-> 10, xfer |-> 10], [nria |-> 10, xfer |-> 10]>>, escrow |-> [c0 |-> [nria |-> 0, xfer |-> 0], c1 |-> [nria |-> 0, xfer |-> 0]], wdSeen |-> {}, deps |-> <<>>])
        /\
        escrow = ([c0 |-> [nria |-> 0, xfer |-> 0], c1 |-> [nria |-> 0, xfer |-> 0]])
        /\
        deps = (<<[asset |-> "nria", amt |-> 1, b |-> 3]>>)
        /\
        bridge = (<<[asset |-> "nria", is |-> FALSE, wd |-> 0, dis |-> FALSE], [asset |-> "nria", is |-> FALSE, wd |-> 0, dis |-> FALSE], [asset |-> "nria", is |-> TRUE, wd |-> 2, dis |-> FALSE]>>)
        /\
        bal = (<<[nria |-> 10, xfer |-> 10], [nria |-> 10, xfer |-> 10], [nria |-> 10, xfer |-> 10]>>)
        /\
        vouchers = ([c0 |-> [nria |-> 0, xfer |-> 0], c1 |-> [nria |-> 0, xfer |-> 0]])
        /\
        feeAssets = ({"nria"})
        /\
        seq = (1)
        /\
        inflight = ({})
    )
----

_init ==
    /\ seq = _TETrace[1].seq
    /\ bal = _TETrace[1].bal
    /\ deps = _TETrace[1].deps
    /\ vouchers = _TETrace[1].vouchers
    /\ escrow = _TETrace[1].escrow
    /\ wdSeen = _TETrace[1].wdSeen
    /\ alt = _TETrace[1].alt
    /\ feeAssets = _TETrace[1].feeAssets
    /\ inflight = _TETrace[1].inflight
    /\ last = _TETrace[1].last
    /\ bridge = _TETrace[1].bridge
    /\ ops = _TETrace[1].ops
----

_next ==
    /\ \E i,j \in DOMAIN _TETrace:
        /\ \/ /\ j = i + 1
              /\ i = TLCGet("level")
        /\ seq  = _TETrace[i].seq
        /\ seq' = _TETrace[j].seq
        /\ bal  = _TETrace[i].bal
        /\ bal' = _TETrace[j].bal
        /\ deps  = _TETrace[i].deps
        /\ deps' = _TETrace[j].deps
        /\ vouchers  = _TETrace[i].vouchers
        /\ vouchers' = _TETrace[j].vouchers
        /\ escrow  = _TETrace[i].escrow
        /\ escrow' = _TETrace[j].escrow
        /\ wdSeen  = _TETrace[i].wdSeen
        /\ wdSeen' = _TETrace[j].wdSeen
        /\ alt  = _TETrace[i].alt
        /\ alt' = _TETrace[j].alt
        /\ feeAssets  = _TETrace[i].feeAssets
        /\ feeAssets' = _TETrace[j].feeAssets
        /\ inflight  = _TETrace[i].inflight
        /\ inflight' = _TETrace[j].inflight
        /\ last  = _TETrace[i].last
        /\ last' = _TETrace[j].last
        /\ bridge  = _TETrace[i].bridge
        /\ bridge' = _TETrace[j].bridge
        /\ ops  = _TETrace[i].ops
        /\ ops' = _TETrace[j].ops

\* Uncomment the ASSUME below to write the states of the error trace
\* to the given file in Json format. Note that you can pass any tuple
\* to `JsonSerialize`. For example, a sub-sequence of _TETrace.
    \* ASSUME
    \*     LET J == INSTANCE Json
    \*         IN J!JsonSerialize("LedgerIbc_TTrace_1790049292.json", _TETrace)

=============================================================================

 Note that you can extract this module `LedgerIbc_TEExpression`
  to a dedicated file to reuse `expression` (the module in the 
  dedicated `LedgerIbc_TEExpression.tla` file takes precedence 
  over the module `LedgerIbc_TEExpression` below).

---- MODULE LedgerIbc_TEExpression ----
EXTENDS Sequences, TLCExt, Toolbox, Naturals, TLC, LedgerIbc

expression == 
    [
        \* To hide variables of the `LedgerIbc` spec from the error trace,
        \* remove the variables below.  The trace will be written in the order
        \* of the fields of this record.
        seq |-> seq
        ,bal |-> bal
        ,deps |-> deps
        ,vouchers |-> vouchers
        ,escrow |-> escrow
        ,wdSeen |-> wdSeen
        ,alt |-> alt
        ,feeAssets |-> feeAssets
        ,inflight |-> inflight
        ,last |-> last
        ,bridge |-> bridge
        ,ops |-> ops
        
        \* Put additional constant-, state-, and action-level expressions here:
        \* ,_stateNumber |-> _TEPosition
        \* ,_seqUnchanged |-> seq = seq'
        
        \* Format the `seq` variable as Json value.
        \* ,_seqJson |->
        \*     LET J == INSTANCE Json
        \*     IN J!ToJson(seq)
        
        \* Lastly, you may build expressions over arbitrary sets of states by
        \* leveraging the _TETrace operator.  For example, this is how to
        \* count the number of times a spec variable changed up to the current
        \* state in the trace.
        \* ,_seqModCount |->
        \*     LET F[s \in DOMAIN _TETrace] ==
        \*         IF s = 1 THEN 0
        \*         ELSE IF _TETrace[s].seq # _TETrace[s-1].seq
        \*             THEN 1 + F[s-1] ELSE F[s-1]
        \*     IN F[_TEPosition - 1]
    ]

=============================================================================



Parsing and semantic processing can take forever if the trace below is long.
 In this case, it is advised to uncomment the module below to deserialize the
 trace from a generated binary file.

\*
\*---- MODULE LedgerIbc_TETrace ----
\*EXTENDS IOUtils, TLC, LedgerIbc
\*
\*trace == IODeserialize("LedgerIbc_TTrace_1790049292.bin", TRUE)
\*
\*=============================================================================
\*

---- MODULE LedgerIbc_TETrace ----
EXTENDS TLC, LedgerIbc

trace == 
    <<
    ([wdSeen |-> {},ops |-> 0,last |-> [op |-> "init", arg |-> 0, out |-> "ok", dev |-> "none"],alt |-> 0,escrow |-> [c0 |-> [nria |-> 0, xfer |-> 0], c1 |-> [nria |-> 0, xfer |-> 0]],deps |-> <<>>,bridge |-> <<[asset |-> "nria", is |-> FALSE, wd |-> 0, dis |-> FALSE], [asset |-> "nria", is |-> FALSE, wd |-> 0, dis |-> FALSE], [asset |-> "nria", is |-> TRUE, wd |-> 2, dis |-> FALSE]>>,bal |-> <<[nria |-> 10, xfer |-> 10], [nria |-> 10, xfer |-> 10], [nria |-> 10, xfer |-> 10]>>,vouchers |-> [c0 |-> [nria |-> 0, xfer |-> 0], c1 |-> [nria |-> 0, xfer |-> 0]],feeAssets |-> {"nria"},seq |-> 1,inflight |-> {}]),
    ([wdSeen |-> {},ops |-> 1,last |-> [op |-> "recv", arg |-> [chan |-> "c0", amt |-> 1, wire |-> "nria_back", to |-> 3, rc |-> "plain", memo |-> "valid", where |-> "escrow"], out |-> "error_ack", dev |-> "F1"],alt |-> [bal |-> <<[nria |-> 10, xfer |-> 10], [nria |-> 10, xfer |-> 10], [nria |-> 10, xfer |-> 10]>>, escrow |-> [c0 |-> [nria |-> 0, xfer |-> 0], c1 |-> [nria |-> 0, xfer |-> 0]], wdSeen |-> {}, deps |-> <<>>],escrow |-> [c0 |-> [nria |-> 0, xfer |-> 0], c1 |-> [nria |-> 0, xfer |-> 0]],deps |-> <<[asset |-> "nria", amt |-> 1, b |-> 3]>>,bridge |-> <<[asset |-> "nria", is |-> FALSE, wd |-> 0, dis |-> FALSE], [asset |-> "nria", is |-> FALSE, wd |-> 0, dis |-> FALSE], [asset |-> "nria", is |-> TRUE, wd |-> 2, dis |-> FALSE]>>,bal |-> <<[nria |-> 10, xfer |-> 10], [nria |-> 10, xfer |-> 10], [nria |-> 10, xfer |-> 10]>>,vouchers |-> [c0 |-> [nria |-> 0, xfer |-> 0], c1 |-> [nria |-> 0, xfer |-> 0]],feeAssets |-> {"nria"},seq |-> 1,inflight |-> {}])
    >>
----


=============================================================================

---- CONFIG LedgerIbc_TTrace_1790049292 ----
CONSTANTS
    NA = 3
    Dev = { "F1" }
    MaxOps = 1
    Profile = "recv"

INVARIANT
    _inv

CHECK_DEADLOCK
    \* CHECK_DEADLOCK off because of PROPERTY or INVARIANT above.
    FALSE

INIT
    _init

NEXT
    _next

CONSTANT
    _TETrace <- _trace

ALIAS
    _expression
=============================================================================
\* Generated on Tue Sep 22 03:54:55 UTC 2026