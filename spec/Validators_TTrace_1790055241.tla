---- MODULE Validators_TTrace_1790055241 ----
EXTENDS Sequences, TLCExt, Toolbox, Validators, Naturals, TLC

_expression ==
    LET Validators_TEExpression == INSTANCE Validators_TEExpression
    IN Validators_TEExpression!expression
----

_trace ==
    LET Validators_TETrace == INSTANCE Validators_TETrace
    IN Validators_TETrace!trace
----

_inv ==
    ~(
        TLCGet("level") = Len(_TETrace)
        /\
        nblk = (1)
        /\
        ntx = (0)
        /\
        dev = ("add-then-remove-in-one-block")
        /\
        last = ([op |-> "end_block", batch |-> {<<2, 0>>}])
        /\
        stored = (<<1, 0, 0>>)
        /\
        comet = (<<1, 0, 0>>)
        /\
        cometErr = ("remove-unknown-validator")
        /\
        count = (1)
        /\
        upd = (<<99, 99, 99>>)
    )
----

_init ==
    /\ nblk = _TETrace[1].nblk
    /\ dev = _TETrace[1].dev
    /\ stored = _TETrace[1].stored
    /\ last = _TETrace[1].last
    /\ cometErr = _TETrace[1].cometErr
    /\ count = _TETrace[1].count
    /\ ntx = _TETrace[1].ntx
    /\ comet = _TETrace[1].comet
    /\ upd = _TETrace[1].upd
----

_next ==
    /\ \E i,j \in DOMAIN _TETrace:
        /\ \/ /\ j = i + 1
              /\ i = TLCGet("level")
        /\ nblk  = _TETrace[i].nblk
        /\ nblk' = _TETrace[j].nblk
        /\ dev  = _TETrace[i].dev
        /\ dev' = _TETrace[j].dev
        /\ stored  = _TETrace[i].stored
        /\ stored' = _TETrace[j].stored
        /\ last  = _TETrace[i].last
        /\ last' = _TETrace[j].last
        /\ cometErr  = _TETrace[i].cometErr
        /\ cometErr' = _TETrace[j].cometErr
        /\ count  = _TETrace[i].count
        /\ count' = _TETrace[j].count
        /\ ntx  = _TETrace[i].ntx
        /\ ntx' = _TETrace[j].ntx
        /\ comet  = _TETrace[i].comet
        /\ comet' = _TETrace[j].comet
        /\ upd  = _TETrace[i].upd
        /\ upd' = _TETrace[j].upd

\* Uncomment the ASSUME below to write the states of the error trace
\* to the given file in Json format. Note that you can pass any tuple
\* to `JsonSerialize`. For example, a sub-sequence of _TETrace.
    \* ASSUME
    \*     LET J == INSTANCE Json
    \*         IN J!JsonSerialize("Validators_TTrace_1790055241.json", _TETrace)

=============================================================================

 Note that you can extract this module `Validators_TEExpression`
  to a dedicated file to reuse `expression` (the module in the 
  dedicated `Validators_TEExpression.tla` file takes precedence 
  over the module `Validators_TEExpression` below).

---- MODULE Validators_TEExpression ----
EXTENDS Sequences, TLCExt, Toolbox, Validators, Naturals, TLC

expression == 
    [
        \* To hide variables of the `Validators` spec from the error trace,
        \* remove the variables below.  The trace will be written in the order
        \* of the fields of this record.
        nblk |-> nblk
        ,dev |-> dev
        ,stored |-> stored
        ,last |-> last
        ,cometErr |-> cometErr
        ,count |-> count
        ,ntx |-> ntx
        ,comet |-> comet
        ,upd |-> upd
        
        \* Put additional constant-, state-, and action-level expressions here:
        \* ,_stateNumber |-> _TEPosition
        \* ,_nblkUnchanged |-> nblk = nblk'
        
        \* Format the `nblk` variable as Json value.
        \* ,_nblkJson |->
        \*     LET J == INSTANCE Json
        \*     IN J!ToJson(nblk)
        
        \* Lastly, you may build expressions over arbitrary sets of states by
        \* leveraging the _TETrace operator.  For example, this is how to
        \* count the number of times a spec variable changed up to the current
        \* state in the trace.
        \* ,_nblkModCount |->
        \*     LET F[s \in DOMAIN _TETrace] ==
        \*         IF s = 1 THEN 0
        \*         ELSE IF _TETrace[s].nblk # _TETrace[s-1].nblk
        \*             THEN 1 + F[s-1] ELSE F[s-1]
        \*     IN F[_TEPosition - 1]
    ]

=============================================================================



Parsing and semantic processing can take forever if the trace below is long.
 In this case, it is advised to uncomment the module below to deserialize the
 trace from a generated binary file.

\*
\*---- MODULE Validators_TETrace ----
\*EXTENDS IOUtils, Validators, TLC
\*
\*trace == IODeserialize("Validators_TTrace_1790055241.bin", TRUE)
\*
\*=============================================================================
\*

---- MODULE Validators_TETrace ----
EXTENDS Validators, TLC

trace == 
    <<
    ([nblk |-> 0,ntx |-> 0,dev |-> "",last |-> [op |-> "init"],stored |-> <<1, 0, 0>>,comet |-> <<1, 0, 0>>,cometErr |-> "",count |-> 1,upd |-> <<99, 99, 99>>]),
    ([nblk |-> 0,ntx |-> 1,dev |-> "",last |-> [op |-> "update", v |-> 2, p |-> 1, out |-> "ok"],stored |-> <<1, 1, 0>>,comet |-> <<1, 0, 0>>,cometErr |-> "",count |-> 2,upd |-> <<99, 1, 99>>]),
    ([nblk |-> 0,ntx |-> 2,dev |-> "",last |-> [op |-> "update", v |-> 2, p |-> 0, out |-> "ok"],stored |-> <<1, 0, 0>>,comet |-> <<1, 0, 0>>,cometErr |-> "",count |-> 1,upd |-> <<99, 0, 99>>]),
    ([nblk |-> 1,ntx |-> 0,dev |-> "add-then-remove-in-one-block",last |-> [op |-> "end_block", batch |-> {<<2, 0>>}],stored |-> <<1, 0, 0>>,comet |-> <<1, 0, 0>>,cometErr |-> "remove-unknown-validator",count |-> 1,upd |-> <<99, 99, 99>>])
    >>
----


=============================================================================

---- CONFIG Validators_TTrace_1790055241 ----
CONSTANTS
    Keys = { 1 , 2 , 3 }
    Powers = { 0 , 1 , 2 }
    MaxTxs = 2
    MaxBlocks = 2
    PostAspen = TRUE

INVARIANT
    _inv

CHECK_DEADLOCK
    \* CHECK_DEADLOCK off because of PROPERTY or INVARIANT above.
    FALSE

INIT
    _init

NEXT
    _next

CONSTANT
    _TETrace <- _trace

ALIAS
    _expression
=============================================================================
\* Generated on Tue Sep 22 05:34:02 UTC 2026