CONSTANTS NA = 3  Dev = {"F1"}  MaxOps = 1  Profile = "recv"
INIT Init
NEXT Next
VIEW View
INVARIANTS EscrowIdentity EscrowNonNegative NoGapByDesign
PROPERTIES FailedRecvNoEffect DepositsBacked ConservationNative

CHECK_DEADLOCK FALSE
