---------------------------- MODULE BatchingTrace ----------------------------
(***************************************************************************)
(* The submissions one run of the real relayer made (what the fake         *)
(* Celestia received, decoded) must be producible by the submitter loop of  *)
(* Batching.tla for the blocks 1..MaxH it was given: TLC searches for an    *)
(* interleaving of Recv / Take / Done whose takes are exactly the logged    *)
(* submissions, with the invariants of Batching.tla checked on the way.     *)
(* Reaching the end of the log is reported as a violation of NotAccepted.   *)
(***************************************************************************)
EXTENDS Batching, Json, IOUtils

TraceLog == ndJsonDeserialize(IOEnv.VERIF_TRACE)
TraceMaxH == atoi(IOEnv.VERIF_HEAD)
TraceFailed == IOEnv.VERIF_FAILED = "1"

VARIABLE l
tvars == <<vars, l>>

TInit == Init /\ l = 1
TTake == l <= Len(Log) /\ Take /\ batch = Log[l].heights /\ l' = l + 1
TNext == TTake \/ ((Recv \/ Done) /\ UNCHANGED l)
TSpec == TInit /\ [][TNext]_tvars

\* every logged submission was taken, every block was handed over and nothing is left behind -- or the submitter
\* exited on a block that fits nowhere, if that is what the relayer did
Complete == /\ l = Len(Log) + 1
            /\ IF TraceFailed THEN failed ELSE (~failed /\ arrived = MaxH /\ batch = <<>> /\ pending = 0)
NotAccepted == ~Complete
\* (the payload bound itself, Log[i].bytes <= 1,000,000, is a constant-level fact about the log: the driver checks it)
=============================================================================
