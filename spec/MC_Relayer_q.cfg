CONSTANTS MaxH = 3  MaxTx = 3  MaxCrash = 2  MaxBatch = 2  AtomicWrite = TRUE  ReaderStart = "last"
INIT Init
NEXT Next
INVARIANTS NoGap FileHonest FileReadable MemHonest TypeOK
CHECK_DEADLOCK FALSE
