CONSTANTS Types = {"tx", "full", "filtered", "filtered_empty", "metadata", "rollupdata"}  MaxDepth = 3  MaxIdx = 4
INIT Init
NEXT Next
INVARIANTS NoThirdWayOut AcceptedIsConsistent Export
CHECK_DEADLOCK FALSE
