CONSTANTS ExportMode = FALSE  Rollups = {1, 2}  Absent = 9  MaxActs = 2  Payloads = {1, 2}
INIT Init
NEXT Next
INVARIANTS Complete IdsExact AbsentNeverServed PayloadsBeforeDeposits
CHECK_DEADLOCK FALSE
