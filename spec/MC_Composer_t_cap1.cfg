CONSTANTS MaxSize = 5  MaxItem = 6  Cap = 1  MaxOps = 6  GeBug = FALSE
INIT Init
NEXT Next
VIEW View
INVARIANTS ExactlyOnceInOrder WithinMax FinishedWithinCap NoEmptyFinished
PROPERTIES RefusalOnlyIf AcceptedOnlyGrows
ACTION_CONSTRAINT LogStep
CHECK_DEADLOCK FALSE
