---------------------------- MODULE RelayerTrace ----------------------------
(***************************************************************************)
(* Trace validation for Relayer.tla: the events recorded from the real     *)
(* relayer (every RPC reaching the fake Celestia app, every write of the    *)
(* state file, process start and kill, Celestia including a BlobTx) must be *)
(* a behaviour of the specification.  One event is one step; the one        *)
(* unlogged step (next_submission.take()) is taken with the account query   *)
(* that follows it, and how many blocks it took as well as what the relayer *)
(* was told about a broadcast are left for TLC to infer from later events.  The invariants of Relayer.tla are evaluated in every state,   *)
(* i.e. on what the implementation actually did.                            *)
(***************************************************************************)
EXTENDS Relayer, Json, IOUtils

Recs == ndJsonDeserialize(IOEnv.VERIF_TRACE)

VARIABLE l
tvars == <<vars, l>>

Ev == Recs[l]
Is(e) == l <= Len(Recs) /\ Ev.ev = e /\ l' = l + 1
F(r) == [k |-> r.k, last |-> r.last, h |-> r.h, tx |-> r.tx]

TInit == Init /\ l = 1

TReset == /\ Is("reset")
          /\ file' = NoFile /\ cel' = [t \in Tx |-> [lo |-> 0, hi |-> 0, st |-> "none"]]
          /\ up' = FALSE /\ mode' = "boot" /\ last' = 0 /\ skipTo' = 0 /\ cur' = NoCur /\ ntx' = 0 /\ ncrash' = 0

TBoot == Is("boot") /\ file = F(Ev.file) /\ Boot

\* a write of the state file: the start-up rewrite of what was read, or one of the specification's writes
TFile == /\ Is("file") /\ Ev.ok /\ file' = F(Ev.file)
         /\ \/ (up /\ file = F(Ev.file) /\ UNCHANGED vars)
            \/ ConfirmPrevConfirmed
            \/ ConfirmPrevTimeout
            \/ (\E t \in Tx : WritePrepared(t))
            \/ Confirmed

\* try_prepare's account query: a new attempt begins (after a timed-out broadcast: the failed attempt was given up)
TRpcPrepare == /\ Is("rpc_prepare")
               /\ \/ (up /\ mode = "preparing" /\ UNCHANGED vars)   \* a retry after a failed attempt
                  \/ FailedAttemptTimeout
                  \/ TakeBatchAny       \* next_submission.take() came first; which blocks it took shows in the write that follows

TBroadcast == /\ Is("broadcast")
              /\ Ev.tx = cur.tx /\ Ev.lo = cur.lo /\ Ev.hi = cur.hi /\ Ev.contiguous
              /\ \E told \in {"ok", "error", "timeout"} : Broadcast(Ev.delivered, told)

\* GetTx has no effect on either side.  It is sent while waiting for a confirmation; one that was already on the wire
\* when the wait timed out reaches Celestia after the relayer has moved on, so the mode is not constrained.
TGetTx == /\ Is("gettx")
          /\ up /\ Ev.tx \in Tx
          /\ (Ev.ans = "confirmed") = (cel[Ev.tx].st = "confirmed")
          /\ UNCHANGED vars

TInclude == Is("include") /\ Include(Ev.tx)
TFail == Is("fail") /\ IncludeFailed(Ev.tx)
TCrash == Is("crash") /\ Crash

TNext == TReset \/ TBoot \/ TFile \/ TRpcPrepare \/ TBroadcast \/ TGetTx \/ TInclude \/ TFail \/ TCrash
TSpec == TInit /\ [][TNext]_tvars

Accepted == LET d == TLCGet("stats").diameter IN
            IF d - 1 = Len(Recs) THEN TRUE
            ELSE PrintT(<<"TRACE-STUCK", d>>)
=============================================================================
