CONSTANTS Mode = "abstract"  MaxQ = 2
INIT Init
NEXT Next
INVARIANTS BlockIsBuild PrepareThenProcessAccepts WithinCometLimit WithinSequencedLimit GroupsNonIncreasing IncludedExecute FirstFitIncluded
CHECK_DEADLOCK FALSE
