------------------------------ MODULE Proposal ------------------------------
(***************************************************************************)
(* Block building and validation: app/mod.rs                               *)
(* (prepare_proposal_tx_execution, process_proposal_tx_execution,          *)
(* proposal_checks_and_tx_execution) and proposal/block_size_constraints.rs *)
(*                                                                         *)
(* A queue entry (what mempool.builder_queue() hands the proposer):        *)
(*   [id, acct, nonce, group, len, seq, exec]                              *)
(*   group: 1..4 (UnbundleableSudo .. BundleableGeneral)                   *)
(*   len:   encoded transaction bytes;  seq: sequenced rollup-data bytes   *)
(*   exec:  "ok" | "fatal" (fails whenever it is executed at its nonce)    *)
(*   fresh: can the transaction be constructed (CheckedTransaction::new,   *)
(*          mutable checks included) against the block's start state?      *)
(*          A mempool transaction was constructed when it arrived; if the  *)
(*          chain moved on since, it may only pass again after an earlier  *)
(*          transaction of the same block (fresh = FALSE).                 *)
(* Accounts start at nonce 0.  Build transcribes the Prepare variant of    *)
(* proposal_checks_and_tx_execution, Check the Process variant.            *)
(*                                                                         *)
(* The module is used in two ways (Mode):                                  *)
(*  "abstract": TLC enumerates small queues itself and checks that what    *)
(*     Build produces is always accepted by Check, within both limits,     *)
(*     group-ordered, free of failing transactions;                        *)
(*  "trace": the records come from the implementation (real mempool, real  *)
(*     prepare_proposal on one node, real process_proposal on another);    *)
(*     the logged block must be exactly Build(queue) and the logged        *)
(*     verdict "accept" (I->S trace validation, one record per state).     *)
(***************************************************************************)
EXTENDS Naturals, Sequences, FiniteSets, TLC, Json, IOUtils

CONSTANTS Mode, MaxQ

MaxSeq == 256000     \* MAX_SEQUENCE_DATA_BYTES_PER_BLOCK

Recs == IF Mode = "trace" THEN ndJsonDeserialize(IOEnv.VERIF_TRACE) ELSE <<>>

VARIABLE rec     \* [queue, maxBytes, overhead, block, verdict]
vars == <<rec>>

\* ---- Prepare variant: state of the fold = [blk, comet, seqUsed, grp, nonce]
StepPrepare(st, e, maxBytes) ==
  IF st.stop THEN st
  ELSE IF e.len > (IF maxBytes >= st.comet THEN maxBytes - st.comet ELSE 0) THEN [st EXCEPT !.stop = TRUE]  \* CometBFT space: break
  ELSE IF e.seq > (IF MaxSeq >= st.seqUsed THEN MaxSeq - st.seqUsed ELSE 0) THEN st          \* sequenced-data space: skip
  ELSE IF e.group > st.grp THEN st                                                          \* higher group after a lower one: skip
  ELSE IF e.nonce # st.nonce[e.acct] THEN st                                                \* InvalidNonce: skip, keep in mempool
  ELSE IF e.exec # "ok" THEN st                                                             \* fails execution: skip, evict
  ELSE [st EXCEPT !.blk = Append(@, e.id), !.comet = @ + e.len, !.seqUsed = @ + e.seq, !.grp = e.group,
                  !.nonce[e.acct] = @ + 1]

RECURSIVE FoldPrepare(_, _, _)
FoldPrepare(st, q, maxBytes) == IF q = <<>> THEN st ELSE FoldPrepare(StepPrepare(st, Head(q), maxBytes), Tail(q), maxBytes)

Accts(q) == {q[i].acct : i \in 1..Len(q)}
Build(q, maxBytes, overhead) ==
  FoldPrepare([blk |-> <<>>, comet |-> overhead, seqUsed |-> 0, grp |-> 4, nonce |-> [a \in Accts(q) |-> 0], stop |-> FALSE],
              q, maxBytes).blk

\* ---- Process variant over the block's entries: "accept" or the reason.  process_proposal first constructs every
\* transaction against the block's start state (construct_checked_txs), then executes them in order.
Entry(q, id) == q[CHOOSE i \in 1..Len(q) : q[i].id = id]
Constructible(q, blk) == \A i \in 1..Len(blk) : Entry(q, blk[i]).fresh
RECURSIVE FoldProcess(_, _, _)
FoldProcess(st, q, blk) ==
  IF blk = <<>> THEN "accept"
  ELSE LET e == Entry(q, Head(blk)) IN
       IF e.seq > (IF MaxSeq >= st.seqUsed THEN MaxSeq - st.seqUsed ELSE 0) THEN "sequenced_data_limit"
       ELSE IF e.group > st.grp THEN "group_order"
       ELSE IF e.nonce # st.nonce[e.acct] \/ e.exec # "ok" THEN "tx_failed"
       ELSE FoldProcess([st EXCEPT !.seqUsed = @ + e.seq, !.grp = e.group, !.nonce[e.acct] = @ + 1], q, Tail(blk))
Check(q, blk) == IF ~Constructible(q, blk) THEN "not_constructible"
                 ELSE FoldProcess([seqUsed |-> 0, grp |-> 4, nonce |-> [a \in Accts(q) |-> 0]], q, blk)

RECURSIVE SumLen(_, _)
SumLen(q, blk) == IF blk = <<>> THEN 0 ELSE Entry(q, Head(blk)).len + SumLen(q, Tail(blk))
RECURSIVE SumSeq(_, _)
SumSeq(q, blk) == IF blk = <<>> THEN 0 ELSE Entry(q, Head(blk)).seq + SumSeq(q, Tail(blk))

-----------------------------------------------------------------------------
(* abstract enumeration *)
Sizes == {100, 300}
SeqSizes == {0, 200000}
AbstractEntries(n) == [id : {n}, acct : {1, 2}, nonce : {0, 1}, group : {2, 4}, len : Sizes, seq : SeqSizes, exec : {"ok", "fatal"},
                       fresh : {TRUE}]
AbstractQueues == UNION {{q \in [1..n -> UNION {AbstractEntries(i) : i \in 1..n}] : \A i \in 1..n : q[i].id = i} : n \in 0..MaxQ}

\* ---- single mutations of an honest block and what ProcessProposal must answer.  The honest block used by the harness:
\* commitments, extended commit info, then [data tx of A (nonce 0), transfer of A (nonce 1), data tx of B (nonce 0),
\* fee change of the sudo account] -- groups 4, 4, 4, 2.
Mutations == {"none", "bad_rollup_txs_root", "bad_rollup_ids_root", "swap_commitments", "drop_commitment",
              "drop_extended_commit_info", "drop_data_tx", "dup_tx", "sudo_group_first", "append_failing_tx",
              "append_garbage", "append_bad_signature", "append_wrong_chain_id", "append_stale_nonce",
              "append_gapped_nonce", "over_sequenced_limit"}
MutationVerdict(m) == IF m = "none" THEN "accept" ELSE "reject"

Init ==
  IF Mode = "mutations" THEN \E m \in Mutations : rec = [mutation |-> m, expect |-> MutationVerdict(m)]
  ELSE IF Mode = "abstract"
    THEN \E q \in AbstractQueues, mb \in {150, 250, 450, 451, 650, 100000} :
           rec = [queue |-> q, maxBytes |-> mb, overhead |-> 50, block |-> Build(q, mb, 50), verdict |-> Check(q, Build(q, mb, 50))]
    ELSE \E i \in 1..Len(Recs) : rec = Recs[i]
Next == UNCHANGED vars
Spec == Init /\ [][Next]_vars

-----------------------------------------------------------------------------
(* C06 *)
Blk == rec.block
Q == rec.queue
\* the implementation's block is the specification's
BlockIsBuild == Blk = Build(Q, rec.maxBytes, rec.overhead)
\* every honest node accepts it
PrepareThenProcessAccepts == rec.verdict = "accept" /\ Check(Q, Blk) = "accept"
\* Named deviation F8 (known finding): the proposer executes its mempool's transactions as constructed earlier, only
\* repeating the mutable checks in sequence; validators construct all of them against the block's start state.  A block
\* holding a transaction that is not constructible there is honest, yet refused.
StaleInBlock == \E i \in 1..Len(Blk) : ~Entry(Q, Blk[i]).fresh
PrepareThenProcessAcceptsOrKnown ==
  IF StaleInBlock THEN Check(Q, Blk) = "not_constructible" /\ rec.verdict \in {"accept", "reject"}
  ELSE PrepareThenProcessAccepts
WithinCometLimit == rec.overhead + SumLen(Q, Blk) <= rec.maxBytes
WithinSequencedLimit == SumSeq(Q, Blk) <= MaxSeq
GroupsNonIncreasing == \A i \in 1..(Len(Blk) - 1) : Entry(Q, Blk[i]).group >= Entry(Q, Blk[i + 1]).group
IncludedExecute == \A i \in 1..Len(Blk) : Entry(Q, Blk[i]).exec = "ok"
\* nothing that fits and would execute is left out before the block is full (no needless exclusion of the first entry)
FirstFitIncluded == (Len(Q) > 0 /\ Q[1].exec = "ok" /\ Q[1].nonce = 0 /\ Q[1].len + rec.overhead <= rec.maxBytes /\ Q[1].seq <= MaxSeq)
                       => (Len(Blk) > 0 /\ Blk[1] = Q[1].id)
ExportMutation == Mode = "mutations" => PrintT(<<"T", ToJson(rec)>>)
=============================================================================
