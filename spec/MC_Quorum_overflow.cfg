CONSTANTS NV = 5  MaxPower = 4  SlotKinds = {"absent","valid"}  Extras = {"none"}
  QuorumRule = "exact"  CountDuplicates = FALSE  DropOnMismatch = TRUE  PowerCap = 14  Part = "commit"
INIT Init
NEXT Next
INVARIANTS AcceptOnlyWithQuorum NeverExceedsTotal Export
CHECK_DEADLOCK FALSE
