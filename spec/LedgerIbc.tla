----------------------------- MODULE LedgerIbc -----------------------------
(***************************************************************************)
(* ICS-20 transfers on the sequencer: escrow accounting and the receive    *)
(* handler.                                                                *)
(*                                                                         *)
(* Sources transcribed: checked_actions/ics20_withdrawal.rs (execute,      *)
(* is_source), ibc/ics20_transfer.rs (receive_tokens step by step in code  *)
(* order, refund_tokens_check, refund_tokens, emit_deposit), ibc/          *)
(* state_ext.rs (channel balances).                                        *)
(*                                                                         *)
(* The environment is explicit: every outgoing packet is in flight until   *)
(* it is delivered (the counterparty then holds vouchers) or refunded      *)
(* (timeout / error acknowledgement), at most once (penumbra's packet      *)
(* commitment guarantees that; assumed).  The counterparty can send back   *)
(* at most its vouchers honestly, or more maliciously.                     *)
(*                                                                         *)
(* Known deviations of the code from the property are named (Dev) and can  *)
(* be switched off to obtain the intended design:                          *)
(*   "F1"  recv_packet_execute does not run receive_tokens in its own state *)
(*         delta: a failure at the escrow debit or at the credit becomes   *)
(*         an error ack while what was written before it stays -- the      *)
(*         bridge deposit (emitted before both) and, when the credit       *)
(*         overflows, the escrow debit.                                    *)
(*   "F2"  Ics20Withdrawal::is_source is false for an `ibc/...`-spelled    *)
(*         denomination, so a sequencer-origin asset spelled that way is   *)
(*         burned instead of escrowed, while the refund path resolves the  *)
(*         spelling and releases escrow that backs other packets.          *)
(***************************************************************************)
EXTENDS Integers, Sequences, FiniteSets, TLC, Json

CONSTANTS NA,        \* accounts 1..NA
          Dev,       \* subset of {"F1", "F2"}: deviations modelled as the code has them
          MaxOps,
          Profile    \* "flow" (withdraw / deliver / return / refund histories) | "recv" (receive cases from state classes)

Acct == 1..NA
NoAcct == 0
Chans == {"c0", "c1"}          \* two open channels: c0 = channel-10 <-> channel-70, c1 = channel-1 <-> channel-7 (on both
                               \* chains one channel id is a textual prefix of the other)
\* "nria": sequencer origin.  "xfer" = transfer/channel-10/utia: origin on the counterparty of c0.
Assets == {"nria", "xfer"}
OriginChan(asset) == IF asset = "xfer" THEN "c0" ELSE "none"
Cap == 1000000
BigBal == Cap - 1              \* a balance so close to the cap that any credit overflows (harness: u128::MAX - 1... scaled)

NoBridge == [is |-> FALSE, asset |-> "nria", wd |-> NoAcct, dis |-> FALSE]
MkBridge(asset, wd, dis) == [is |-> TRUE, asset |-> asset, wd |-> wd, dis |-> dis]

VARIABLES bal,        \* [Acct -> [Assets -> Nat]]
          bridge,     \* [Acct -> bridge record]
          feeAssets,  \* allowed fee assets (post-Blackburn only these may be received)
          escrow,     \* [Chans -> [Assets -> Nat]]
          wdSeen,     \* withdrawal events honoured: set of <<bridge, event>>
          deps,       \* deposits cached for this block: Seq([b, asset, amt])
          inflight,   \* set of outgoing packets not yet delivered / refunded
          vouchers,   \* [Chans -> [Assets -> Nat]]: what the counterparty holds of assets it received from us
          seq,        \* next packet sequence number
          last,       \* the step that produced this state
          alt,        \* what the intended design (no deviation) would have produced in that step
          gap,        \* ghost [Chans -> Nat]: nria missing from the channel's escrow through a named deviation (F2: sent out
                      \* without being escrowed; F1: debited for a packet that was then refused)
          ops
vars == <<bal, bridge, feeAssets, escrow, wdSeen, deps, inflight, vouchers, seq, last, alt, gap, ops>>
View == <<bal, bridge, feeAssets, escrow, wdSeen, deps, inflight, vouchers, gap>>

\* is the sequencer the source for `asset` leaving over `chan`? (trace-prefixed reading)
IsSource(asset, chan) == OriginChan(asset) # chan

Step(op, arg, out, dev) == [op |-> op, arg |-> arg, out |-> out, dev |-> dev]

-----------------------------------------------------------------------------
(* Each handler is a function R(D, ...) from the current state to the new values, parametrised by the set D of
   deviations in force; the action applies R(Dev, ...) and records in `alt` what R({}, ...) -- the intended design --
   would have produced from the same state. *)
Cur == [bal |-> bal, escrow |-> escrow, wdSeen |-> wdSeen, deps |-> deps]

\* Ics20Withdrawal::execute (through App::execute_transaction: any failure leaves no trace)
WithdrawR(D, a, chan, asset, spell, amt, b, ev) ==
  LET from == IF b = NoAcct THEN a ELSE b
      authOK == IF b = NoAcct THEN ~bridge[a].is
                ELSE bridge[b].is /\ bridge[b].wd = a /\ <<b, ev>> \notin wdSeen
      ok == amt > 0 /\ authOK /\ bal[from][asset] >= amt
      escrowed == IF spell = "ibc" /\ "F2" \in D THEN FALSE ELSE IsSource(asset, chan)
  IN IF ~ok THEN [out |-> "fail", st |-> Cur, escrowed |-> FALSE, dev |-> "none"]
     ELSE [out |-> "ok",
           st |-> [bal |-> [bal EXCEPT ![from][asset] = @ - amt],
                   escrow |-> IF escrowed THEN [escrow EXCEPT ![chan][asset] = @ + amt] ELSE escrow,
                   wdSeen |-> IF b = NoAcct THEN wdSeen ELSE wdSeen \cup {<<b, ev>>},
                   deps |-> deps],
           escrowed |-> escrowed,
           dev |-> IF spell = "ibc" /\ "F2" \in D /\ IsSource(asset, chan) THEN "F2" ELSE "none"]

Withdraw(a, chan, asset, spell, amt, b, ev) ==
  /\ ops < MaxOps /\ ops' = ops + 1
  /\ LET r == WithdrawR(Dev, a, chan, asset, spell, amt, b, ev)
         arg == [a |-> a, chan |-> chan, asset |-> asset, spell |-> spell, amt |-> amt, b |-> b, ev |-> ev]
     IN /\ bal' = r.st.bal /\ escrow' = r.st.escrow /\ wdSeen' = r.st.wdSeen /\ deps' = r.st.deps
        /\ inflight' = IF r.out = "ok"
                         THEN inflight \cup {[id |-> seq, chan |-> chan, asset |-> asset, spell |-> spell, amt |-> amt,
                                               sender |-> IF b = NoAcct THEN a ELSE b, escrowed |-> r.escrowed,
                                               rollup |-> b # NoAcct]}
                         ELSE inflight
        /\ seq' = IF r.out = "ok" THEN seq + 1 ELSE seq
        /\ UNCHANGED <<bridge, feeAssets, vouchers>>
        /\ gap' = IF r.dev = "F2" /\ asset = "nria" THEN [gap EXCEPT ![chan] = @ + amt] ELSE gap
        /\ last' = Step("withdraw", arg, r.out, r.dev)
        /\ alt' = WithdrawR({}, a, chan, asset, spell, amt, b, ev).st

\* the counterparty receives the packet and holds vouchers for what we should have escrowed; its successful
\* acknowledgement comes back (acknowledge_packet_check / _execute) and changes nothing here.  `form`: the JSON of the
\* acknowledgement as ibc-go writes it ("canonical") or with other white space ("spaced").
Deliver(p, form) ==
  /\ ops < MaxOps /\ ops' = ops + 1
  /\ p \in inflight /\ inflight' = inflight \ {p}
  /\ vouchers' = IF IsSource(p.asset, p.chan) THEN [vouchers EXCEPT ![p.chan][p.asset] = @ + p.amt] ELSE vouchers
  /\ UNCHANGED <<bal, bridge, feeAssets, escrow, wdSeen, deps, seq, gap>>
  /\ last' = Step("deliver", [p |-> p, form |-> form], "ok", "none") /\ alt' = Cur

\* one transaction with two withdrawals of a plain account over the same channel (both are constructed, with all their
\* checks, before either executes)
Withdraw2(a, chan, asset, amt1, amt2) ==
  /\ ops < MaxOps /\ ops' = ops + 1
  /\ LET ok == amt1 > 0 /\ amt2 > 0 /\ ~bridge[a].is /\ bal[a][asset] >= amt1 + amt2
         esc == IsSource(asset, chan)
         arg == [a |-> a, chan |-> chan, asset |-> asset, amt1 |-> amt1, amt2 |-> amt2]
         mk(id, amt) == [id |-> id, chan |-> chan, asset |-> asset, spell |-> "trace", amt |-> amt, sender |-> a,
                         escrowed |-> esc, rollup |-> FALSE]
     IN /\ bal' = IF ok THEN [bal EXCEPT ![a][asset] = @ - (amt1 + amt2)] ELSE bal
        /\ escrow' = IF ok /\ esc THEN [escrow EXCEPT ![chan][asset] = @ + amt1 + amt2] ELSE escrow
        /\ inflight' = IF ok THEN inflight \cup {mk(seq, amt1), mk(seq + 1, amt2)} ELSE inflight
        /\ seq' = IF ok THEN seq + 2 ELSE seq
        /\ UNCHANGED <<bridge, feeAssets, vouchers, wdSeen, deps, gap>>
        /\ last' = Step("withdraw2", arg, IF ok THEN "ok" ELSE "fail", "none")
        /\ alt' = [bal |-> bal', escrow |-> escrow', wdSeen |-> wdSeen, deps |-> deps]

\* refund_tokens_check then refund_tokens (timeout or error acknowledgement of our own packet).  The refund path
\* resolves the spelling, so it is the same under every D; what differs is whether the packet had been escrowed.
RefundR(p) ==
  LET release == IsSource(p.asset, p.chan)
      checkOK == ~release \/ escrow[p.chan][p.asset] >= p.amt
      \* a refund to a rollup emits a deposit for the bridge account first
      depOK == ~p.rollup \/ (bridge[p.sender].is /\ bridge[p.sender].asset = p.asset)
  IN IF ~checkOK \/ ~depOK \/ bal[p.sender][p.asset] + p.amt > Cap
       THEN [out |-> "fail", st |-> Cur, dev |-> "none"]
       ELSE [out |-> "ok",
             st |-> [bal |-> [bal EXCEPT ![p.sender][p.asset] = @ + p.amt],
                     escrow |-> IF release THEN [escrow EXCEPT ![p.chan][p.asset] = @ - p.amt] ELSE escrow,
                     wdSeen |-> wdSeen,
                     deps |-> IF p.rollup THEN Append(deps, [b |-> p.sender, asset |-> p.asset, amt |-> p.amt]) ELSE deps],
             dev |-> IF release /\ ~p.escrowed THEN "F2" ELSE "none"]

Refund(p, how) ==
  /\ ops < MaxOps /\ ops' = ops + 1
  /\ p \in inflight
  /\ LET r == RefundR(p)
     IN /\ bal' = r.st.bal /\ escrow' = r.st.escrow /\ wdSeen' = r.st.wdSeen /\ deps' = r.st.deps
        /\ inflight' = IF r.out = "ok" THEN inflight \ {p} ELSE inflight
        /\ UNCHANGED <<bridge, feeAssets, vouchers, seq, gap>>
        /\ last' = Step(how, p, r.out, r.dev) /\ alt' = r.st

\* receive_tokens, step by step.  `wire` is the asset as the counterparty names it:
\*   "nria_back": transfer/<their channel>/nria  (coming home: is_transfer_source_zone, pops the prefix, debits escrow)
\*   "utia"     : a token of theirs; on c0 it becomes transfer/channel-10/utia = "xfer", on c1 an unknown asset
\*   "hop"      : transfer/<their channel>0/nria -- a voucher of a third chain whose first hop only *looks* like their
\*                channel (channel-70 vs channel-7): a foreign asset, not a returning one
\* recipient class rc: "plain" | "malformed";  memo: "none" | "valid" | "invalid"
RecvR(D, chan, wire, amt, to, rc, memo) ==
  LET asset == IF wire = "nria_back" THEN "nria" ELSE IF wire = "utia" /\ chan = "c0" THEN "xfer" ELSE "other"
      isSrc == wire = "nria_back"
      isB == bridge[to].is
      \* where the handler stops, and whether the deposit had been emitted by then
      stop == IF rc = "malformed" THEN <<"recipient", FALSE>>
              ELSE IF asset \notin feeAssets THEN <<"fee_asset_gate", FALSE>>
              ELSE IF isB /\ bridge[to].dis THEN <<"bridge_disabled", FALSE>>
              ELSE IF isB /\ memo # "valid" THEN <<"memo", FALSE>>
              ELSE IF isB /\ bridge[to].asset # asset THEN <<"bridge_asset", FALSE>>
              \* emit_bridge_lock_deposit happens here, before the two steps that can still fail
              ELSE IF isSrc /\ escrow[chan][asset] < amt THEN <<"escrow", isB>>
              ELSE IF bal[to][asset] + amt > Cap THEN <<"credit_overflow", isB>>
              ELSE <<"none", isB>>
      dep == [b |-> to, asset |-> asset, amt |-> amt]
  IN IF stop[1] = "none"
       THEN [out |-> "ok", where |-> "none", dev |-> "none",
             st |-> [bal |-> [bal EXCEPT ![to][asset] = @ + amt],
                     escrow |-> IF isSrc THEN [escrow EXCEPT ![chan][asset] = @ - amt] ELSE escrow,
                     wdSeen |-> wdSeen,
                     deps |-> IF isB THEN Append(deps, dep) ELSE deps]]
       ELSE IF "F1" \in D /\ stop[1] \in {"escrow", "credit_overflow"}
         \* as coded, whatever receive_tokens wrote before failing stays: the deposit (bridge recipient), and, when the
         \* credit overflows, also the escrow debit that preceded it
         THEN LET st1 == [Cur EXCEPT !.deps = IF isB THEN Append(deps, dep) ELSE deps,
                                     !.escrow = IF stop[1] = "credit_overflow" /\ isSrc
                                                  THEN [escrow EXCEPT ![chan][asset] = @ - amt] ELSE escrow]
              IN [out |-> "error_ack", where |-> stop[1], dev |-> IF st1 = Cur THEN "none" ELSE "F1", st |-> st1]
         ELSE [out |-> "error_ack", where |-> stop[1], dev |-> "none", st |-> Cur]

Recv(chan, wire, amt, to, rc, memo, honest) ==
  /\ ops < MaxOps /\ ops' = ops + 1
  \* an honest counterparty sends back at most the vouchers it holds; a dishonest one tries to release more than
  \* the channel has escrowed
  /\ wire = "nria_back" => (IF honest THEN vouchers[chan]["nria"] >= amt ELSE escrow[chan]["nria"] < amt)
  /\ wire # "nria_back" => honest
  /\ LET r == RecvR(Dev, chan, wire, amt, to, rc, memo)
         arg == [chan |-> chan, wire |-> wire, amt |-> amt, to |-> to, rc |-> rc, memo |-> memo, where |-> r.where]
     IN /\ bal' = r.st.bal /\ escrow' = r.st.escrow /\ wdSeen' = r.st.wdSeen /\ deps' = r.st.deps
        /\ vouchers' = IF r.out = "ok" /\ wire = "nria_back" THEN [vouchers EXCEPT ![chan]["nria"] = @ - amt] ELSE vouchers
        /\ UNCHANGED <<bridge, feeAssets, inflight, seq>>
        \* an escrow debit surviving an error ack (F1) takes funds out of the channel that nobody received
        /\ gap' = IF r.out = "error_ack" /\ wire = "nria_back" THEN [gap EXCEPT ![chan] = @ + (escrow[chan]["nria"] - r.st.escrow[chan]["nria"])] ELSE gap
        /\ last' = Step("recv", arg, r.out, r.dev)
        /\ alt' = RecvR({}, chan, wire, amt, to, rc, memo).st

-----------------------------------------------------------------------------
FlowInit ==
  /\ bal = [a \in Acct |-> [x \in Assets |-> 10]]
  /\ bridge = [a \in Acct |-> IF a = 3 THEN MkBridge("nria", 2, FALSE) ELSE NoBridge]
  /\ feeAssets = {"nria", "xfer"}
  /\ escrow = [c \in Chans |-> [x \in Assets |-> 0]]
  /\ wdSeen = {} /\ deps = <<>> /\ inflight = {} /\ vouchers = [c \in Chans |-> [x \in Assets |-> 0]]
  /\ seq = 1 /\ ops = 0 /\ last = Step("init", 0, "ok", "none") /\ alt = 0 /\ gap = [c \in Chans |-> 0]

\* receive cases start from state classes: escrow backed by vouchers, bridge recipient classes, balance near the cap
RecvInit ==
  /\ \E e \in {0, 1, 5}, b3 \in {NoBridge, MkBridge("nria", 2, FALSE), MkBridge("nria", 2, TRUE), MkBridge("xfer", 2, FALSE)},
        fa \in {{"nria", "xfer"}, {"nria"}}, big \in BOOLEAN :
       /\ escrow = [c \in Chans |-> [x \in Assets |-> IF x = "nria" THEN e ELSE 0]]
       /\ vouchers = [c \in Chans |-> [x \in Assets |-> IF x = "nria" THEN e ELSE 0]]
       /\ bridge = [a \in Acct |-> IF a = 3 THEN b3 ELSE NoBridge]
       /\ feeAssets = fa
       /\ bal = [a \in Acct |-> [x \in Assets |-> IF big /\ a \in {1, 3} THEN BigBal ELSE 10]]
  /\ wdSeen = {} /\ deps = <<>> /\ inflight = {} /\ seq = 1 /\ ops = 0 /\ last = Step("init", 0, "ok", "none") /\ alt = 0 /\ gap = [c \in Chans |-> 0]

Init == IF Profile = "flow" THEN FlowInit ELSE RecvInit

FlowNext ==
  \/ \E a \in {1, 2}, chan \in Chans, asset \in Assets, spell \in {"trace", "ibc"}, amt \in {0, 2, 3} :
        Withdraw(a, chan, asset, spell, amt, NoAcct, "e1")
  \/ \E chan \in {"c0"}, spell \in {"trace", "ibc"}, ev \in {"e1", "e2"} : Withdraw(2, chan, "nria", spell, 2, 3, ev)
  \/ \E p \in inflight, form \in {"canonical", "spaced"} : Deliver(p, form)
  \/ \E chan \in Chans, asset \in Assets, amt1 \in {2, 3}, amt2 \in {2, 9} : Withdraw2(1, chan, asset, amt1, amt2)
  \/ \E p \in inflight, how \in {"timeout", "ack_fail"} : Refund(p, how)
  \/ \E chan \in Chans, amt \in {2, 3}, to \in {1, 3}, memo \in {"none", "valid"} :
        Recv(chan, "nria_back", amt, to, "plain", memo, TRUE)
RecvNext ==
  \E chan \in Chans, wire \in {"nria_back", "utia", "hop"}, amt \in {1, 3}, to \in {1, 3}, rc \in {"plain", "malformed"},
     memo \in {"none", "valid", "invalid"}, honest \in BOOLEAN :
        Recv(chan, wire, amt, to, rc, memo, honest)
Next == IF Profile = "flow" THEN FlowNext ELSE RecvNext
Spec == Init /\ [][Next]_vars

-----------------------------------------------------------------------------
RECURSIVE SumSet(_, _)
SumSet(f(_), S) == IF S = {} THEN 0 ELSE LET x == CHOOSE y \in S : TRUE IN f(x) + SumSet(f, S \ {x})
InflightEscrowed(c, x) == SumSet(LAMBDA p : IF p.chan = c /\ p.asset = x /\ IsSource(p.asset, p.chan) THEN p.amt ELSE 0, inflight)

\* C18: escrow = sent out over the channel - returned / refunded over it, for assets of sequencer origin
EscrowIdentity == \A c \in Chans : escrow[c]["nria"] = vouchers[c]["nria"] + InflightEscrowed(c, "nria")
\* as coded, the identity is off by exactly what deviation F2 sent out without escrowing -- nothing else
EscrowIdentityOrKnown == \A c \in Chans : escrow[c]["nria"] + gap[c] = vouchers[c]["nria"] + InflightEscrowed(c, "nria")
NoGapByDesign == (Dev = {}) => \A c \in Chans : gap[c] = 0
\* C18: an incoming transfer or refund never releases more than is escrowed (balances are naturals: checked as type)
EscrowNonNegative == \A c \in Chans, x \in Assets : escrow[c][x] >= 0
\* C18 / C04: a packet acknowledged with an error changes no balance, registers no deposit
FailedRecvNoEffect == [][(last'.op = "recv" /\ last'.out = "error_ack") =>
                           UNCHANGED <<bal, escrow, deps, bridge>>]_vars
FailedRecvNoEffectOrKnown == [][(last'.op = "recv" /\ last'.out = "error_ack" /\ last'.dev # "F1") =>
                                  UNCHANGED <<bal, escrow, deps, bridge>>]_vars
\* C04: every deposit registered comes with an equal credit of the bridge account in the same step
DepositsBacked == [][Len(deps') > Len(deps) =>
                       LET d == deps'[Len(deps')] IN
                       (bal'[d.b][d.asset] = bal[d.b][d.asset] + d.amt) \/ last'.dev = "F1"]_vars
\* C01 (IBC part): supply changes only by what is minted (foreign asset received) or burned (foreign asset sent home)
Supply(b, e, x) == SumSet(LAMBDA a : b[a][x], Acct) + SumSet(LAMBDA c : e[c][x], Chans)
ConservationNative == [][Supply(bal', escrow', "nria") = Supply(bal, escrow, "nria") \/ last'.dev \in {"F1", "F2"}]_vars

-----------------------------------------------------------------------------
Proj(b, br, fa, e, w, d) == [bal |-> b, bridge |-> br, feeAssets |-> fa, escrow |-> e, wdSeen |-> w, deps |-> d]
LogStep == PrintT(<<"T", ToJson([s |-> Proj(bal, bridge, feeAssets, escrow, wdSeen, deps), a |-> last',
                                 t |-> Proj(bal', bridge', feeAssets', escrow', wdSeen', deps'),
                                 tf |-> IF last'.dev = "none" THEN "same"
                                        ELSE Proj(alt'.bal, bridge', feeAssets', alt'.escrow, alt'.wdSeen, alt'.deps)])>>)
=============================================================================
