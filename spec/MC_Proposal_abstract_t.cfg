CONSTANTS Mode = "abstract"  MaxQ = 3
INIT Init
NEXT Next
INVARIANTS BlockIsBuild PrepareThenProcessAccepts WithinCometLimit WithinSequencedLimit GroupsNonIncreasing IncludedExecute FirstFitIncluded
CHECK_DEADLOCK FALSE
