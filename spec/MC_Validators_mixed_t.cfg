CONSTANTS Keys = {1, 2, 3}  Powers = {0, 1, 2}  MaxTxs = 2  MaxBlocks = 4  PostAspen = FALSE  AllowUpgrade = TRUE
INIT Init
NEXT Next
INVARIANTS MirrorOrKnown BatchApplicableOrKnown NeverEmptyOrKnown
ACTION_CONSTRAINT LogStep
CHECK_DEADLOCK FALSE
