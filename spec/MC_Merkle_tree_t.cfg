CONSTANTS N = 40  W = 8  Dup = FALSE  Mode = "tree"  CheckedDecode = TRUE
INIT Init
NEXT Next
INVARIANTS RootIsMTH SizeIsOdd ProofIsPATH Complete Sound NoProofOutside NeverPanicsOnMutations Export
CHECK_DEADLOCK FALSE
