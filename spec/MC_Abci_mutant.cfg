CONSTANTS MaxCalls = 2  Dev = {"F3"}
  TxSet = "small"
INIT Init
NEXT Next
INVARIANTS PathIndependence NeverStuck Done
CHECK_DEADLOCK FALSE
