CONSTANTS MaxH = 3  Mode = "SoftAndFirm"  MaxInject = 1  Spread = 2  MaxRestart = 1  Batched = FALSE  MaxPhases = 99
INIT Init
NEXT Next
VIEW View
INVARIANTS OncePerHeightInOrder ParentChain CommitMonotone FirmLeSoft FirmNamesExecuted PendingWithin
PROPERTIES NeverExecutesOutOfOrder
ACTION_CONSTRAINT LogAll
CHECK_DEADLOCK FALSE
