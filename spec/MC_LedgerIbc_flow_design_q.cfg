CONSTANTS NA = 3  Dev = {}  MaxOps = 3  Profile = "flow"
INIT Init
NEXT Next
VIEW View
INVARIANTS EscrowIdentity EscrowNonNegative NoGapByDesign
PROPERTIES FailedRecvNoEffect DepositsBacked ConservationNative

CHECK_DEADLOCK FALSE
