CONSTANTS MaxH = 5  Mode = "SoftAndFirm"  MaxInject = 2  Spread = 3  MaxRestart = 1  Batched = FALSE  MaxPhases = 99
INIT Init
NEXT Next
VIEW View
INVARIANTS OncePerHeightInOrder ParentChain CommitMonotone FirmLeSoft FirmNamesExecuted PendingWithin
PROPERTIES NeverExecutesOutOfOrder
ACTION_CONSTRAINT LogAll
CHECK_DEADLOCK FALSE
