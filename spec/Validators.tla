----------------------------- MODULE Validators -----------------------------
(***************************************************************************)
(* The validator set the application keeps and the update batches it hands *)
(* to CometBFT.  Sources: checked_actions/validator_update.rs (mutable     *)
(* checks and execute, both storage formats), authority/component.rs       *)
(* (end_block before Aspen), authority/mod.rs (ValidatorSet: a map keyed   *)
(* by address, last write wins), app/mod.rs (end_block returns and clears  *)
(* the block's updates).                                                   *)
(*                                                                         *)
(* `comet` is what CometBFT holds: the genesis set folded with every batch *)
(* the application returned, applied the way CometBFT applies one: an      *)
(* update with power 0 removes a validator it must know, any other sets    *)
(* the power, and the result must not be empty.  A batch it cannot apply   *)
(* halts the chain; the model records that in `cometErr`.                  *)
(*                                                                         *)
(* Known deviation of the code (kept as a known finding):                  *)
(*  pre-Aspen:  removals are checked against the set as it was before the  *)
(*     block (it is only updated at end of block); two removals can both   *)
(*     pass "not the only validator" and empty the set.                    *)
(* (Post-Aspen, "add v then remove v in one block" would hand CometBFT the *)
(*  single update (v, 0) for a validator it does not know, but the removal *)
(*  cannot be constructed against the block's start state, so no block     *)
(*  ProcessProposal accepts contains it: not reachable, not a finding.)    *)
(***************************************************************************)
EXTENDS Naturals, Sequences, FiniteSets, TLC, Json

CONSTANTS Keys,        \* validator identities
          Powers,      \* powers a ValidatorUpdate may carry (0 = remove)
          MaxTxs,      \* validator updates per block
          MaxBlocks,
          PostAspen,   \* the storage format at genesis. TRUE: individual-validator storage with immediate effect;
                       \* FALSE: the legacy set, updated at end of block
          AllowUpgrade \* TRUE: the Aspen upgrade may activate at any block boundary of a legacy history
                       \* (authority/component.rs handle_aspen_upgrade: the legacy set is migrated entry by entry
                       \* into individual storage and the count is written), so one history spans both formats

None == 99   \* "no update for this key in the block"
\* genesis sets (functions Keys -> power, 0 = absent): a single validator, and two validators
First == CHOOSE k \in Keys : \A j \in Keys : k <= j
Second == CHOOSE k \in Keys \ {First} : \A j \in Keys \ {First} : k <= j
Genesis == {[k \in Keys |-> IF k = First THEN 1 ELSE 0],
            [k \in Keys |-> IF k = First THEN 1 ELSE IF k = Second THEN 2 ELSE 0]}

VARIABLES stored,    \* [Keys -> power]: the application's set (0 = absent)
          count,     \* the stored validator count (post-Aspen)
          upd,       \* [Keys -> power or None]: this block's updates (ValidatorSet keyed by address)
          comet,     \* [Keys -> power]: CometBFT's set
          cometErr,  \* a returned batch could not be applied by CometBFT: "" or the reason
          dev,       \* this block exercised a known deviation: "" or its name
          stored0, count0,   \* the application's set and count when the block started: every transaction of a block is
                             \* *constructed* (mutable checks included) against that state -- by CheckTx before it
                             \* enters the mempool, by process_proposal / finalize_block before executing any of them
          post,      \* the storage format in force for the current block (PostAspen at genesis; flips once at Aspen)
          last, ntx, nblk
vars == <<stored, count, upd, comet, cometErr, dev, stored0, count0, post, last, ntx, nblk>>

Card(f) == Cardinality({k \in Keys : f[k] > 0})

Init == /\ stored \in Genesis /\ comet = stored /\ count = Card(stored)
        /\ upd = [k \in Keys |-> None] /\ cometErr = "" /\ dev = ""
        /\ stored0 = stored /\ count0 = count
        /\ post = PostAspen
        /\ last = [op |-> "init"] /\ ntx = 0 /\ nblk = 0

\* ValidatorUpdate(v, p) signed by the sudo address (authority is decided in Ledger.tla)
Update(v, p) ==
  /\ ntx < MaxTxs /\ nblk < MaxBlocks /\ cometErr = ""
  /\ ntx' = ntx + 1 /\ UNCHANGED <<comet, cometErr, nblk, stored0, count0, post>>
  \* only transactions that can be constructed against the block's start state are ever in a block
  /\ IF post THEN p > 0 \/ (count0 > 1 /\ stored0[v] > 0)
                  ELSE p > 0 \/ (stored0[v] > 0 /\ Card(stored0) # 1)
  /\ IF post THEN
       LET exists == stored[v] > 0
           ok == p > 0 \/ (count > 1 /\ exists)
       IN IF ~ok
            THEN /\ UNCHANGED <<stored, count, upd, dev>>
                 /\ last' = [op |-> "update", v |-> v, p |-> p, out |-> "fail"]
            ELSE /\ stored' = [stored EXCEPT ![v] = p]
                 /\ count' = IF p = 0 THEN count - 1 ELSE IF exists THEN count ELSE count + 1
                 /\ upd' = [upd EXCEPT ![v] = p]
                 /\ dev' = dev
                 /\ last' = [op |-> "update", v |-> v, p |-> p, out |-> "ok"]
     ELSE
       \* legacy: checks against the set as stored (this block's earlier updates are not in it yet)
       LET ok == p > 0 \/ (stored[v] > 0 /\ Card(stored) # 1)
       IN IF ~ok
            THEN /\ UNCHANGED <<stored, count, upd, dev>>
                 /\ last' = [op |-> "update", v |-> v, p |-> p, out |-> "fail"]
            ELSE /\ upd' = [upd EXCEPT ![v] = p]
                 /\ UNCHANGED <<stored, count>>
                 /\ dev' = dev
                 /\ last' = [op |-> "update", v |-> v, p |-> p, out |-> "ok"]

\* how CometBFT applies a batch (types/validator_set.go: updates then deletes; a delete of an unknown validator
\* and an empty resulting set are errors)
ApplyComet(c, u) ==
  LET bad == \E k \in Keys : u[k] = 0 /\ c[k] = 0
      res == [k \in Keys |-> IF u[k] = None THEN c[k] ELSE u[k]]
  IN IF bad THEN [err |-> "remove-unknown-validator", set |-> c]
     ELSE IF Card(res) = 0 THEN [err |-> "empty-validator-set", set |-> c]
     ELSE [err |-> "", set |-> res]

EndBlock ==
  /\ nblk < MaxBlocks /\ cometErr = ""
  /\ LET batch == upd
         r == ApplyComet(comet, batch)
         st2 == IF post THEN stored
                ELSE [k \in Keys |-> IF batch[k] = None THEN stored[k] ELSE batch[k]]   \* apply_updates at end of block
     IN /\ stored' = st2 /\ count' = IF post THEN count ELSE Card(st2)
        /\ comet' = r.set /\ cometErr' = r.err
        /\ upd' = [k \in Keys |-> None] /\ ntx' = 0 /\ nblk' = nblk + 1
        \* the next block may be the one at which Aspen activates: the upgrade runs before any of its transactions,
        \* keeps the set as it is and writes its size as the count (already maintained above for the legacy format)
        /\ post' \in (IF post \/ ~AllowUpgrade THEN {post} ELSE {FALSE, TRUE})
        /\ stored0' = st2 /\ count0' = IF post THEN count ELSE Card(st2)
        \* the two known ways a batch becomes inapplicable; anything else is unexpected
        /\ dev' = IF r.err = "" THEN dev
                  ELSE IF post /\ r.err = "remove-unknown-validator" THEN "add-then-remove-in-one-block"
                  ELSE IF ~post /\ r.err = "empty-validator-set" THEN "two-removals-empty-the-set"
                  ELSE "UNEXPECTED"
        /\ last' = [op |-> "end_block", batch |-> {<<k, batch[k]>> : k \in {x \in Keys : batch[x] # None}}]

Next == (\E v \in Keys, p \in Powers : Update(v, p)) \/ EndBlock
Spec == Init /\ [][Next]_vars

-----------------------------------------------------------------------------
(* C14 *)
AtBoundary == last.op \in {"init", "end_block"}
\* after every block the set CometBFT holds equals the application's, and the stored count is its size
Mirror == (AtBoundary /\ cometErr = "") => (comet = stored /\ count = Card(stored))
\* every batch can be applied: never removes an unknown validator, never empties the set
BatchApplicable == cometErr = ""
NeverEmpty == AtBoundary => Card(stored) > 0
\* the same, tolerating exactly the named deviations
Known == dev \in {"add-then-remove-in-one-block", "two-removals-empty-the-set"}
MirrorOrKnown == Mirror \/ Known
BatchApplicableOrKnown == BatchApplicable \/ Known
NeverEmptyOrKnown == NeverEmpty \/ Known

-----------------------------------------------------------------------------
Proj(s, c, u) == [stored |-> s, count |-> c, upd |-> {<<k, u[k]>> : k \in {x \in Keys : u[x] # None}}]
LogStep == PrintT(<<"T", ToJson([s |-> [st |-> Proj(stored, count, upd), comet |-> comet, nblk |-> nblk, err |-> cometErr, post |-> post],
                                 a |-> last', dev |-> dev',
                                 t |-> [st |-> Proj(stored', count', upd'), comet |-> comet', nblk |-> nblk', err |-> cometErr', post |-> post']])>>)
=============================================================================
