CONSTANTS NV = 3  MaxPower = 1  SlotKinds = {"valid"}  Extras = {"none"}
  QuorumRule = "exact"  CountDuplicates = FALSE  DropOnMismatch = FALSE  PowerCap = 1000000  Part = "pipeline"
INIT Init
NEXT Next
INVARIANTS AcceptOnlyWithQuorum AcceptWellFormedWithQuorum NeverExceedsTotal FirmOnlyIfCommitted DataOnlyIfBound Export
CHECK_DEADLOCK FALSE
