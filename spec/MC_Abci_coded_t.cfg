CONSTANTS MaxCalls = 3  Dev = {"F3"}
  TxSet = "big"
INIT Init
NEXT Next
INVARIANTS PathIndependenceOrKnown NeverStuck Done
CHECK_DEADLOCK FALSE
