CONSTANTS NA = 3  Dev = {"F1","F2"}  MaxOps = 3  Profile = "flow"
INIT Init
NEXT Next
VIEW View
INVARIANTS EscrowIdentityOrKnown EscrowNonNegative NoGapByDesign
PROPERTIES FailedRecvNoEffectOrKnown DepositsBacked ConservationNative
ACTION_CONSTRAINT LogStep
CHECK_DEADLOCK FALSE
