CONSTANTS NV = 5  MaxPower = 5  SlotKinds = {"absent","valid"}  Extras = {"none","dup"}
  QuorumRule = "exact"  CountDuplicates = FALSE  DropOnMismatch = TRUE  PowerCap = 1000000  Part = "commit"
INIT Init
NEXT Next
INVARIANTS AcceptOnlyWithQuorum AcceptWellFormedWithQuorum NeverExceedsTotal FirmOnlyIfCommitted DataOnlyIfBound Export
CHECK_DEADLOCK FALSE
