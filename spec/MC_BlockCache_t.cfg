CONSTANTS MaxH = 6  MaxOps = 8
INIT Init
NEXT Next
INVARIANTS StrictlyIncreasing GapsOnlyByDrop NeverObsolete NothingStale
ACTION_CONSTRAINT LogStep
CHECK_DEADLOCK FALSE
