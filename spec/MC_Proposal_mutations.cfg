CONSTANTS Mode = "mutations"  MaxQ = 0
INIT Init
NEXT Next
INVARIANTS ExportMutation
CHECK_DEADLOCK FALSE
