CONSTANTS MaxSize = 3  MaxItem = 4  Cap = 2  MaxOps = 6  GeBug = TRUE
INIT Init
NEXT Next
VIEW View
INVARIANTS ExactlyOnceInOrder WithinMax FinishedWithinCap NoEmptyFinished
PROPERTIES RefusalOnlyIf AcceptedOnlyGrows
ACTION_CONSTRAINT LogStep
CHECK_DEADLOCK FALSE
