CONSTANTS Accts = {1, 2}  MaxNonce = 2  MaxBal = 4  ParkedAcctLimit = 15  ParkedTotalLimit = 2  MaxOps = 3  Dev = {}
  Variants = {1}  Costs = {1, 2}  BalChoices = {0, 2, 4}
INIT Init
NEXT Next
VIEW View
INVARIANTS ExactlyOnePlace PendingConsecutive AfterMaintain AfterInsert ParkedLimits
ACTION_CONSTRAINT LogStep
CHECK_DEADLOCK FALSE
