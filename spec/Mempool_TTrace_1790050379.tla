---- MODULE Mempool_TTrace_1790050379 ----
EXTENDS Sequences, TLCExt, Toolbox, Naturals, TLC, Mempool

_expression ==
    LET Mempool_TEExpression == INSTANCE Mempool_TEExpression
    IN Mempool_TEExpression!expression
----

_trace ==
    LET Mempool_TETrace == INSTANCE Mempool_TETrace
    IN Mempool_TETrace!trace
----

_inv ==
    ~(
        TLCGet("level") = Len(_TETrace)
        /\
        parked = (<<(0 :> [a |-> 1, n |-> 0, v |-> 1, c |-> 1, cost |-> 1, old |-> FALSE] @@ 1 :> [a |-> 0, n |-> 99, v |-> 0, c |-> 0, cost |-> 0, old |-> FALSE] @@ 2 :> [a |-> 0, n |-> 99, v |-> 0, c |-> 0, cost |-> 0, old |-> FALSE] @@ 3 :> [a |-> 0, n |-> 99, v |-> 0, c |-> 0, cost |-> 0, old |-> FALSE])>>)
        /\
        contained = ({[a |-> 1, n |-> 0, v |-> 1, c |-> 1]})
        /\
        ops = (2)
        /\
        shown = (<<0>>)
        /\
        last = ([cost |-> 1, op |-> "insert", id |-> [a |-> 1, n |-> 0, v |-> 1, c |-> 1], cn |-> 0, bal |-> 2, out |-> "AddedToPending"])
        /\
        removed = (<<>>)
        /\
        fee = (0)
        /\
        pending = (<<(0 :> [a |-> 1, n |-> 0, v |-> 1, c |-> 1, cost |-> 1, old |-> FALSE] @@ 1 :> [a |-> 0, n |-> 99, v |-> 0, c |-> 0, cost |-> 0, old |-> FALSE] @@ 2 :> [a |-> 0, n |-> 99, v |-> 0, c |-> 0, cost |-> 0, old |-> FALSE] @@ 3 :> [a |-> 0, n |-> 99, v |-> 0, c |-> 0, cost |-> 0, old |-> FALSE])>>)
        /\
        accepted = ({[a |-> 1, n |-> 0, v |-> 1, c |-> 1]})
    )
----

_init ==
    /\ accepted = _TETrace[1].accepted
    /\ shown = _TETrace[1].shown
    /\ fee = _TETrace[1].fee
    /\ pending = _TETrace[1].pending
    /\ last = _TETrace[1].last
    /\ parked = _TETrace[1].parked
    /\ removed = _TETrace[1].removed
    /\ ops = _TETrace[1].ops
    /\ contained = _TETrace[1].contained
----

_next ==
    /\ \E i,j \in DOMAIN _TETrace:
        /\ \/ /\ j = i + 1
              /\ i = TLCGet("level")
        /\ accepted  = _TETrace[i].accepted
        /\ accepted' = _TETrace[j].accepted
        /\ shown  = _TETrace[i].shown
        /\ shown' = _TETrace[j].shown
        /\ fee  = _TETrace[i].fee
        /\ fee' = _TETrace[j].fee
        /\ pending  = _TETrace[i].pending
        /\ pending' = _TETrace[j].pending
        /\ last  = _TETrace[i].last
        /\ last' = _TETrace[j].last
        /\ parked  = _TETrace[i].parked
        /\ parked' = _TETrace[j].parked
        /\ removed  = _TETrace[i].removed
        /\ removed' = _TETrace[j].removed
        /\ ops  = _TETrace[i].ops
        /\ ops' = _TETrace[j].ops
        /\ contained  = _TETrace[i].contained
        /\ contained' = _TETrace[j].contained

\* Uncomment the ASSUME below to write the states of the error trace
\* to the given file in Json format. Note that you can pass any tuple
\* to `JsonSerialize`. For example, a sub-sequence of _TETrace.
    \* ASSUME
    \*     LET J == INSTANCE Json
    \*         IN J!JsonSerialize("Mempool_TTrace_1790050379.json", _TETrace)

=============================================================================

 Note that you can extract this module `Mempool_TEExpression`
  to a dedicated file to reuse `expression` (the module in the 
  dedicated `Mempool_TEExpression.tla` file takes precedence 
  over the module `Mempool_TEExpression` below).

---- MODULE Mempool_TEExpression ----
EXTENDS Sequences, TLCExt, Toolbox, Naturals, TLC, Mempool

expression == 
    [
        \* To hide variables of the `Mempool` spec from the error trace,
        \* remove the variables below.  The trace will be written in the order
        \* of the fields of this record.
        accepted |-> accepted
        ,shown |-> shown
        ,fee |-> fee
        ,pending |-> pending
        ,last |-> last
        ,parked |-> parked
        ,removed |-> removed
        ,ops |-> ops
        ,contained |-> contained
        
        \* Put additional constant-, state-, and action-level expressions here:
        \* ,_stateNumber |-> _TEPosition
        \* ,_acceptedUnchanged |-> accepted = accepted'
        
        \* Format the `accepted` variable as Json value.
        \* ,_acceptedJson |->
        \*     LET J == INSTANCE Json
        \*     IN J!ToJson(accepted)
        
        \* Lastly, you may build expressions over arbitrary sets of states by
        \* leveraging the _TETrace operator.  For example, this is how to
        \* count the number of times a spec variable changed up to the current
        \* state in the trace.
        \* ,_acceptedModCount |->
        \*     LET F[s \in DOMAIN _TETrace] ==
        \*         IF s = 1 THEN 0
        \*         ELSE IF _TETrace[s].accepted # _TETrace[s-1].accepted
        \*             THEN 1 + F[s-1] ELSE F[s-1]
        \*     IN F[_TEPosition - 1]
    ]

=============================================================================



Parsing and semantic processing can take forever if the trace below is long.
 In this case, it is advised to uncomment the module below to deserialize the
 trace from a generated binary file.

\*
\*---- MODULE Mempool_TETrace ----
\*EXTENDS IOUtils, TLC, Mempool
\*
\*trace == IODeserialize("Mempool_TTrace_1790050379.bin", TRUE)
\*
\*=============================================================================
\*

---- MODULE Mempool_TETrace ----
EXTENDS TLC, Mempool

trace == 
    <<
    ([parked |-> <<(0 :> [a |-> 0, n |-> 99, v |-> 0, c |-> 0, cost |-> 0, old |-> FALSE] @@ 1 :> [a |-> 0, n |-> 99, v |-> 0, c |-> 0, cost |-> 0, old |-> FALSE] @@ 2 :> [a |-> 0, n |-> 99, v |-> 0, c |-> 0, cost |-> 0, old |-> FALSE] @@ 3 :> [a |-> 0, n |-> 99, v |-> 0, c |-> 0, cost |-> 0, old |-> FALSE])>>,contained |-> {},ops |-> 0,shown |-> <<0>>,last |-> [op |-> "init"],removed |-> <<>>,fee |-> 0,pending |-> <<(0 :> [a |-> 0, n |-> 99, v |-> 0, c |-> 0, cost |-> 0, old |-> FALSE] @@ 1 :> [a |-> 0, n |-> 99, v |-> 0, c |-> 0, cost |-> 0, old |-> FALSE] @@ 2 :> [a |-> 0, n |-> 99, v |-> 0, c |-> 0, cost |-> 0, old |-> FALSE] @@ 3 :> [a |-> 0, n |-> 99, v |-> 0, c |-> 0, cost |-> 0, old |-> FALSE])>>,accepted |-> {}]),
    ([parked |-> <<(0 :> [a |-> 1, n |-> 0, v |-> 1, c |-> 1, cost |-> 1, old |-> FALSE] @@ 1 :> [a |-> 0, n |-> 99, v |-> 0, c |-> 0, cost |-> 0, old |-> FALSE] @@ 2 :> [a |-> 0, n |-> 99, v |-> 0, c |-> 0, cost |-> 0, old |-> FALSE] @@ 3 :> [a |-> 0, n |-> 99, v |-> 0, c |-> 0, cost |-> 0, old |-> FALSE])>>,contained |-> {[a |-> 1, n |-> 0, v |-> 1, c |-> 1]},ops |-> 1,shown |-> <<0>>,last |-> [cost |-> 1, op |-> "insert", id |-> [a |-> 1, n |-> 0, v |-> 1, c |-> 1], cn |-> 0, bal |-> 0, out |-> "AddedToParked"],removed |-> <<>>,fee |-> 0,pending |-> <<(0 :> [a |-> 0, n |-> 99, v |-> 0, c |-> 0, cost |-> 0, old |-> FALSE] @@ 1 :> [a |-> 0, n |-> 99, v |-> 0, c |-> 0, cost |-> 0, old |-> FALSE] @@ 2 :> [a |-> 0, n |-> 99, v |-> 0, c |-> 0, cost |-> 0, old |-> FALSE] @@ 3 :> [a |-> 0, n |-> 99, v |-> 0, c |-> 0, cost |-> 0, old |-> FALSE])>>,accepted |-> {[a |-> 1, n |-> 0, v |-> 1, c |-> 1]}]),
    ([parked |-> <<(0 :> [a |-> 1, n |-> 0, v |-> 1, c |-> 1, cost |-> 1, old |-> FALSE] @@ 1 :> [a |-> 0, n |-> 99, v |-> 0, c |-> 0, cost |-> 0, old |-> FALSE] @@ 2 :> [a |-> 0, n |-> 99, v |-> 0, c |-> 0, cost |-> 0, old |-> FALSE] @@ 3 :> [a |-> 0, n |-> 99, v |-> 0, c |-> 0, cost |-> 0, old |-> FALSE])>>,contained |-> {[a |-> 1, n |-> 0, v |-> 1, c |-> 1]},ops |-> 2,shown |-> <<0>>,last |-> [cost |-> 1, op |-> "insert", id |-> [a |-> 1, n |-> 0, v |-> 1, c |-> 1], cn |-> 0, bal |-> 2, out |-> "AddedToPending"],removed |-> <<>>,fee |-> 0,pending |-> <<(0 :> [a |-> 1, n |-> 0, v |-> 1, c |-> 1, cost |-> 1, old |-> FALSE] @@ 1 :> [a |-> 0, n |-> 99, v |-> 0, c |-> 0, cost |-> 0, old |-> FALSE] @@ 2 :> [a |-> 0, n |-> 99, v |-> 0, c |-> 0, cost |-> 0, old |-> FALSE] @@ 3 :> [a |-> 0, n |-> 99, v |-> 0, c |-> 0, cost |-> 0, old |-> FALSE])>>,accepted |-> {[a |-> 1, n |-> 0, v |-> 1, c |-> 1]}])
    >>
----


=============================================================================

---- CONFIG Mempool_TTrace_1790050379 ----
CONSTANTS
    Accts = { 1 }
    MaxNonce = 3
    MaxBal = 4
    ParkedAcctLimit = 2
    ParkedTotalLimit = 3
    MaxOps = 4
    Dev = { "F9" }
    Variants = { 1 , 2 }
    Costs = { 1 , 2 }
    BalChoices = { 0 , 2 , 4 }

INVARIANT
    _inv

CHECK_DEADLOCK
    \* CHECK_DEADLOCK off because of PROPERTY or INVARIANT above.
    FALSE

INIT
    _init

NEXT
    _next

CONSTANT
    _TETrace <- _trace

ALIAS
    _expression
=============================================================================
\* Generated on Tue Sep 22 04:13:01 UTC 2026