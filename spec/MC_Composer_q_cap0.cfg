CONSTANTS MaxSize = 3  MaxItem = 4  Cap = 0  MaxOps = 5  GeBug = FALSE
INIT Init
NEXT Next
VIEW View
INVARIANTS ExactlyOnceInOrder WithinMax FinishedWithinCap NoEmptyFinished
PROPERTIES RefusalOnlyIf AcceptedOnlyGrows
ACTION_CONSTRAINT LogStep
CHECK_DEADLOCK FALSE
