CONSTANTS MaxH = 3  Mode = "SoftOnly"  MaxInject = 1  Spread = 2  MaxRestart = 1  Batched = TRUE  MaxPhases = 2
INIT Init
NEXT Next

INVARIANTS OncePerHeightInOrder ParentChain CommitMonotone FirmLeSoft FirmNamesExecuted PendingWithin
PROPERTIES NeverExecutesOutOfOrder
ACTION_CONSTRAINT Behaviour
CHECK_DEADLOCK FALSE
