CONSTANTS NA = 4  Assets = {"nria", "alt", "big"}  BigCap = 3  Profile = "fees"  MaxTxs = 2
  LockVC = [nria |-> 21, alt |-> 20, big |-> 20]
INIT Init
NEXT Next
INVARIANTS TypeOK
PROPERTIES Conservation FeesExact FeesAccumulate FeesRouted DebitAuthorised PrivilegedChange Atomic NonceStep DepositsBacked WithdrawalOnce
CHECK_DEADLOCK FALSE
