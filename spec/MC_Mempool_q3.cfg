CONSTANTS Accts = {1}  MaxNonce = 2  MaxBal = 4  ParkedAcctLimit = 15  ParkedTotalLimit = 2  MaxOps = 4  Dev = {}
  Variants = {1}  Costs = {1}  BalChoices = {0, 4}
INIT Init
NEXT Next
VIEW View
INVARIANTS ExactlyOnePlace PendingConsecutive AfterMaintain AfterInsert ParkedLimits
ACTION_CONSTRAINT LogStep
CHECK_DEADLOCK FALSE
