CONSTANTS MaxCalls = 3  Dev = {}
  TxSet = "small"
INIT Init
NEXT Next
INVARIANTS PathIndependence NeverStuck Done
CHECK_DEADLOCK FALSE
