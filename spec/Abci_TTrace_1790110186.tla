---- MODULE Abci_TTrace_1790110186 ----
EXTENDS Sequences, TLCExt, Toolbox, Abci, Naturals, TLC

_expression ==
    LET Abci_TEExpression == INSTANCE Abci_TEExpression
    IN Abci_TEExpression!expression
----

_trace ==
    LET Abci_TETrace == INSTANCE Abci_TETrace
    IN Abci_TETrace!trace
----

_inv ==
    ~(
        TLCGet("level") = Len(_TETrace)
        /\
        decided = ([prices |-> TRUE, txs |-> <<"removeP">>, bad |-> FALSE, misb |-> FALSE])
        /\
        result = ([k |-> "done", state |-> [ex |-> FALSE, nonce |-> 99, priced |-> FALSE, ntx |-> 99, pun |-> FALSE], canon |-> [ex |-> FALSE, nonce |-> 0, priced |-> FALSE, ntx |-> 1, pun |-> FALSE], dev |-> TRUE])
        /\
        hist = (<<[b |-> [prices |-> FALSE, txs |-> <<>>, bad |-> FALSE, misb |-> FALSE], op |-> "prepare", ok |-> TRUE], [b |-> [prices |-> TRUE, txs |-> <<"removeP">>, bad |-> FALSE, misb |-> FALSE], op |-> "process", ok |-> TRUE], [b |-> [prices |-> TRUE, txs |-> <<"removeP">>, bad |-> FALSE, misb |-> FALSE], op |-> "finalize", ok |-> TRUE]>>)
        /\
        committed = ([ex |-> TRUE, nonce |-> 0, priced |-> FALSE, ntx |-> 0, pun |-> FALSE])
        /\
        calls = (2)
        /\
        work = ([ex |-> FALSE, nonce |-> 99, priced |-> FALSE, ntx |-> 99, pun |-> FALSE])
        /\
        es = ([k |-> "executed", b |-> [prices |-> TRUE, txs |-> <<"removeP">>, bad |-> FALSE, misb |-> FALSE]])
    )
----

_init ==
    /\ work = _TETrace[1].work
    /\ es = _TETrace[1].es
    /\ hist = _TETrace[1].hist
    /\ committed = _TETrace[1].committed
    /\ decided = _TETrace[1].decided
    /\ result = _TETrace[1].result
    /\ calls = _TETrace[1].calls
----

_next ==
    /\ \E i,j \in DOMAIN _TETrace:
        /\ \/ /\ j = i + 1
              /\ i = TLCGet("level")
        /\ work  = _TETrace[i].work
        /\ work' = _TETrace[j].work
        /\ es  = _TETrace[i].es
        /\ es' = _TETrace[j].es
        /\ hist  = _TETrace[i].hist
        /\ hist' = _TETrace[j].hist
        /\ committed  = _TETrace[i].committed
        /\ committed' = _TETrace[j].committed
        /\ decided  = _TETrace[i].decided
        /\ decided' = _TETrace[j].decided
        /\ result  = _TETrace[i].result
        /\ result' = _TETrace[j].result
        /\ calls  = _TETrace[i].calls
        /\ calls' = _TETrace[j].calls

\* Uncomment the ASSUME below to write the states of the error trace
\* to the given file in Json format. Note that you can pass any tuple
\* to `JsonSerialize`. For example, a sub-sequence of _TETrace.
    \* ASSUME
    \*     LET J == INSTANCE Json
    \*         IN J!JsonSerialize("Abci_TTrace_1790110186.json", _TETrace)

=============================================================================

 Note that you can extract this module `Abci_TEExpression`
  to a dedicated file to reuse `expression` (the module in the 
  dedicated `Abci_TEExpression.tla` file takes precedence 
  over the module `Abci_TEExpression` below).

---- MODULE Abci_TEExpression ----
EXTENDS Sequences, TLCExt, Toolbox, Abci, Naturals, TLC

expression == 
    [
        \* To hide variables of the `Abci` spec from the error trace,
        \* remove the variables below.  The trace will be written in the order
        \* of the fields of this record.
        work |-> work
        ,es |-> es
        ,hist |-> hist
        ,committed |-> committed
        ,decided |-> decided
        ,result |-> result
        ,calls |-> calls
        
        \* Put additional constant-, state-, and action-level expressions here:
        \* ,_stateNumber |-> _TEPosition
        \* ,_workUnchanged |-> work = work'
        
        \* Format the `work` variable as Json value.
        \* ,_workJson |->
        \*     LET J == INSTANCE Json
        \*     IN J!ToJson(work)
        
        \* Lastly, you may build expressions over arbitrary sets of states by
        \* leveraging the _TETrace operator.  For example, this is how to
        \* count the number of times a spec variable changed up to the current
        \* state in the trace.
        \* ,_workModCount |->
        \*     LET F[s \in DOMAIN _TETrace] ==
        \*         IF s = 1 THEN 0
        \*         ELSE IF _TETrace[s].work # _TETrace[s-1].work
        \*             THEN 1 + F[s-1] ELSE F[s-1]
        \*     IN F[_TEPosition - 1]
    ]

=============================================================================



Parsing and semantic processing can take forever if the trace below is long.
 In this case, it is advised to uncomment the module below to deserialize the
 trace from a generated binary file.

\*
\*---- MODULE Abci_TETrace ----
\*EXTENDS IOUtils, Abci, TLC
\*
\*trace == IODeserialize("Abci_TTrace_1790110186.bin", TRUE)
\*
\*=============================================================================
\*

---- MODULE Abci_TETrace ----
EXTENDS Abci, TLC

trace == 
    <<
    ([decided |-> [prices |-> FALSE, txs |-> <<"none">>, bad |-> FALSE, misb |-> FALSE],result |-> [k |-> "none"],hist |-> <<>>,committed |-> [ex |-> TRUE, nonce |-> 0, priced |-> FALSE, ntx |-> 0, pun |-> FALSE],calls |-> 0,work |-> [ex |-> TRUE, nonce |-> 0, priced |-> FALSE, ntx |-> 0, pun |-> FALSE],es |-> [k |-> "unset", b |-> [prices |-> FALSE, txs |-> <<"none">>, bad |-> FALSE, misb |-> FALSE]]]),
    ([decided |-> [prices |-> FALSE, txs |-> <<"none">>, bad |-> FALSE, misb |-> FALSE],result |-> [k |-> "none"],hist |-> <<[b |-> [prices |-> FALSE, txs |-> <<>>, bad |-> FALSE, misb |-> FALSE], op |-> "prepare", ok |-> TRUE]>>,committed |-> [ex |-> TRUE, nonce |-> 0, priced |-> FALSE, ntx |-> 0, pun |-> FALSE],calls |-> 1,work |-> [ex |-> TRUE, nonce |-> 0, priced |-> FALSE, ntx |-> 0, pun |-> FALSE],es |-> [k |-> "prepared", b |-> [prices |-> FALSE, txs |-> <<>>, bad |-> FALSE, misb |-> FALSE]]]),
    ([decided |-> [prices |-> FALSE, txs |-> <<"none">>, bad |-> FALSE, misb |-> FALSE],result |-> [k |-> "none"],hist |-> <<[b |-> [prices |-> FALSE, txs |-> <<>>, bad |-> FALSE, misb |-> FALSE], op |-> "prepare", ok |-> TRUE], [b |-> [prices |-> TRUE, txs |-> <<"removeP">>, bad |-> FALSE, misb |-> FALSE], op |-> "process", ok |-> TRUE]>>,committed |-> [ex |-> TRUE, nonce |-> 0, priced |-> FALSE, ntx |-> 0, pun |-> FALSE],calls |-> 2,work |-> [ex |-> FALSE, nonce |-> 0, priced |-> FALSE, ntx |-> 1, pun |-> FALSE],es |-> [k |-> "executed", b |-> [prices |-> TRUE, txs |-> <<"removeP">>, bad |-> FALSE, misb |-> FALSE]]]),
    ([decided |-> [prices |-> TRUE, txs |-> <<"removeP">>, bad |-> FALSE, misb |-> FALSE],result |-> [k |-> "done", state |-> [ex |-> FALSE, nonce |-> 99, priced |-> FALSE, ntx |-> 99, pun |-> FALSE], canon |-> [ex |-> FALSE, nonce |-> 0, priced |-> FALSE, ntx |-> 1, pun |-> FALSE], dev |-> TRUE],hist |-> <<[b |-> [prices |-> FALSE, txs |-> <<>>, bad |-> FALSE, misb |-> FALSE], op |-> "prepare", ok |-> TRUE], [b |-> [prices |-> TRUE, txs |-> <<"removeP">>, bad |-> FALSE, misb |-> FALSE], op |-> "process", ok |-> TRUE], [b |-> [prices |-> TRUE, txs |-> <<"removeP">>, bad |-> FALSE, misb |-> FALSE], op |-> "finalize", ok |-> TRUE]>>,committed |-> [ex |-> TRUE, nonce |-> 0, priced |-> FALSE, ntx |-> 0, pun |-> FALSE],calls |-> 2,work |-> [ex |-> FALSE, nonce |-> 99, priced |-> FALSE, ntx |-> 99, pun |-> FALSE],es |-> [k |-> "executed", b |-> [prices |-> TRUE, txs |-> <<"removeP">>, bad |-> FALSE, misb |-> FALSE]]])
    >>
----


=============================================================================

---- CONFIG Abci_TTrace_1790110186 ----
CONSTANTS
    MaxCalls = 2
    Dev = { "F3" }
    TxSet = "small"

INVARIANT
    _inv

CHECK_DEADLOCK
    \* CHECK_DEADLOCK off because of PROPERTY or INVARIANT above.
    FALSE

INIT
    _init

NEXT
    _next

CONSTANT
    _TETrace <- _trace

ALIAS
    _expression
=============================================================================
\* Generated on Tue Sep 22 20:49:56 UTC 2026