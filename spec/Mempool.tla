------------------------------ MODULE Mempool ------------------------------
(***************************************************************************)
(* The sequencer's app-side mempool: mempool/mod.rs (MempoolInner::insert, *)
(* remove_tx_invalid, run_maintenance, transaction_status) and             *)
(* mempool/transactions_container.rs (TransactionsForAccount::add for the  *)
(* pending and parked containers, find_promotables, find_demotables,       *)
(* clean_account_stale_expired, builder_queue).                            *)
(*                                                                         *)
(* A transaction is [a, n, v, c]: account, nonce, variant (two different   *)
(* transactions may carry the same nonce) and cost class.  Its cost in the *)
(* single fee asset is c + the transfer fee in force when it was (re)costed.*)
(*                                                                         *)
(* Named deviations (Dev), both repaired in the code (see known_findings): *)
(*  "F9": MempoolInner::insert did not consult contained_txs: a parked     *)
(*        transaction inserted again when it now fits went into pending    *)
(*        while staying in parked.                                         *)
(*  "F4": a failed promotion / demotion during run_maintenance removed the *)
(*        transaction from contained_txs without a removal-cache entry.    *)
(***************************************************************************)
EXTENDS Naturals, Sequences, FiniteSets, TLC, Json

CONSTANTS Accts, MaxNonce, MaxBal,
          ParkedAcctLimit,     \* MAX_PARKED_TXS_PER_ACCOUNT (15 in the code)
          ParkedTotalLimit,    \* parked_max_tx_count
          MaxOps, Dev,
          Variants, Costs,
          BalChoices           \* balances shown to the mempool

Nonces == 0..MaxNonce
TxIds == [a : Accts, n : Nonces, v : Variants, c : Costs]
NoTx == [a |-> 0, n |-> 99, v |-> 0, c |-> 0, cost |-> 0, old |-> FALSE]
Id(t) == [a |-> t.a, n |-> t.n, v |-> t.v, c |-> t.c]

VARIABLES pending, parked,   \* [Accts -> [Nonces -> tx record or NoTx]]
          contained,         \* set of ids (contained_txs)
          removed,           \* [id -> reason]: removal cache (function with a finite domain)
          fee,               \* transfer fee the chain currently charges (enters the cost of a tx)
          shown,             \* [Accts -> nonce]: the highest account nonce shown to the mempool so far (monotone)
          accepted,          \* ghost: ids insert ever returned Ok for
          last,              \* the operation that produced this state and its result
          ops
vars == <<pending, parked, contained, removed, fee, shown, accepted, last, ops>>
View == <<pending, parked, contained, removed, fee, shown, accepted>>

Dom(q) == {n \in Nonces : q[n] # NoTx}
Ids(q) == {Id(q[n]) : n \in Dom(q)}
AllIds(Q) == UNION {Ids(Q[a]) : a \in Accts}
Min(S) == CHOOSE x \in S : \A y \in S : x <= y
Max(S) == CHOOSE x \in S : \A y \in S : x >= y
RECURSIVE SumCost(_, _)
SumCost(q, S) == IF S = {} THEN 0 ELSE LET n == Min(S) IN q[n].cost + SumCost(q, S \ {n})
Monus(x, y) == IF x >= y THEN x - y ELSE 0
Count(Q) == Cardinality(UNION {{<<a, n>> : n \in Dom(Q[a])} : a \in Accts})
EmptyQ == [n \in Nonces |-> NoTx]

Init == /\ pending = [a \in Accts |-> EmptyQ] /\ parked = [a \in Accts |-> EmptyQ]
        /\ contained = {} /\ removed = <<>> /\ fee = 0 /\ shown = [a \in Accts |-> 0] /\ accepted = {}
        /\ last = [op |-> "init"] /\ ops = 0

Put(rem, id, reason) == IF id \in DOMAIN rem THEN rem ELSE (id :> reason) @@ rem   \* RemovalCache::add keeps the first reason
RECURSIVE PutAll(_, _, _)
PutAll(rem, S, reason) == IF S = {} THEN rem
                          ELSE LET id == CHOOSE x \in S : TRUE IN PutAll(Put(rem, id, reason), S \ {id}, reason)

\* ---- TransactionsForAccount::add, pending flavour: an error tag or "ok"
PendingAdd(q, t, cn, bal) ==
  IF t.n < cn THEN "NonceTooLow"
  ELSE IF q[t.n] # NoTx THEN (IF Id(q[t.n]) = Id(t) THEN "AlreadyPresent" ELSE "NonceTaken")
  ELSE IF ~(IF t.n = 0 THEN cn = 0 ELSE (q[t.n - 1] # NoTx \/ t.n = cn)) THEN "NonceGap"
  ELSE IF SumCost(q, Dom(q)) + t.cost > bal THEN "AccountBalanceTooLow"
  ELSE "ok"

\* ---- ParkedTransactions::add (container: total limit first) then the account's add
ParkedAdd(K, t, cn) ==
  IF Count(K) >= ParkedTotalLimit THEN "ParkedSizeLimit"
  ELSE IF Cardinality(Dom(K[t.a])) >= ParkedAcctLimit THEN "AccountSizeLimit"
  ELSE IF t.n < cn THEN "NonceTooLow"
  ELSE IF K[t.a][t.n] # NoTx THEN (IF Id(K[t.a][t.n]) = Id(t) THEN "AlreadyPresent" ELSE "NonceTaken")
  ELSE "ok"

\* ---- ParkedTransactionsForAccount::find_promotables: the contiguous run at the FRONT of the queue starting at target
RECURSIVE PromoRun(_, _, _)
PromoRun(q, target, avail) ==
  IF Dom(q) = {} THEN {}
  ELSE LET f == Min(Dom(q)) IN
       IF f # target \/ q[f].cost > avail THEN {}
       ELSE {f} \cup PromoRun([q EXCEPT ![f] = NoTx], target + 1, avail - q[f].cost)

\* promote one by one through PendingAdd; a failure drops the tx, reported iff `report`
RECURSIVE Promote(_, _, _, _, _, _, _, _)
Promote(pq, src, run, cn, bal, cont, rem, report) ==
  IF run = {} THEN [pq |-> pq, cont |-> cont, rem |-> rem]
  ELSE LET n == Min(run)
           t == src[n]
       IN IF PendingAdd(pq, t, cn, bal) = "ok"
            THEN Promote([pq EXCEPT ![n] = t], src, run \ {n}, cn, bal, cont, rem, report)
            ELSE Promote(pq, src, run \ {n}, cn, bal, cont \ {Id(t)},
                         IF report THEN Put(rem, Id(t), "InternalError") ELSE rem, report)

MkTx(id) == [a |-> id.a, n |-> id.n, v |-> id.v, c |-> id.c, cost |-> id.c + fee, old |-> FALSE]

\* ---- MempoolInner::insert(tx, current_account_nonce, current_account_balances, cost)
Insert(id, cn, bal) ==
  /\ ops < MaxOps /\ ops' = ops + 1
  /\ cn >= shown[id.a] /\ shown' = [shown EXCEPT ![id.a] = cn]
  /\ UNCHANGED fee
  /\ LET t == MkTx(id)
         a == id.a
         r == IF "F9" \notin Dev /\ id \in contained THEN "AlreadyPresent" ELSE PendingAdd(pending[a], t, cn, bal)
     IN IF r = "ok" THEN
          LET p1 == [pending[a] EXCEPT ![t.n] = t]
              run == PromoRun(parked[a], t.n + 1, Monus(bal, SumCost(p1, Dom(p1))))
              res == Promote(p1, parked[a], run, cn, bal, contained, removed, TRUE)
          IN /\ pending' = [pending EXCEPT ![a] = res.pq]
             /\ parked' = [parked EXCEPT ![a] = [n \in Nonces |-> IF n \in run THEN NoTx ELSE parked[a][n]]]
             /\ contained' = res.cont \cup {id}
             /\ removed' = res.rem
             /\ accepted' = accepted \cup {id}
             /\ last' = [op |-> "insert", id |-> id, cn |-> cn, bal |-> bal, cost |-> t.cost, out |-> "AddedToPending"]
        ELSE IF r \in {"NonceGap", "AccountBalanceTooLow"} THEN
          LET r2 == ParkedAdd(parked, t, cn) IN
          IF r2 = "ok"
            THEN /\ parked' = [parked EXCEPT ![a][t.n] = t]
                 /\ contained' = contained \cup {id} /\ accepted' = accepted \cup {id}
                 /\ UNCHANGED <<pending, removed>>
                 /\ last' = [op |-> "insert", id |-> id, cn |-> cn, bal |-> bal, cost |-> t.cost, out |-> "AddedToParked"]
            ELSE /\ UNCHANGED <<pending, parked, contained, removed, accepted>>
                 /\ last' = [op |-> "insert", id |-> id, cn |-> cn, bal |-> bal, cost |-> t.cost, out |-> r2]
        ELSE /\ UNCHANGED <<pending, parked, contained, removed, accepted>>
             /\ last' = [op |-> "insert", id |-> id, cn |-> cn, bal |-> bal, cost |-> t.cost, out |-> r]

\* ---- MempoolInner::remove_tx_invalid(tx, reason): acts on the tx's NONCE in its account's queues
RemoveInvalid(id) ==
  /\ ops < MaxOps /\ ops' = ops + 1 /\ UNCHANGED <<fee, shown, accepted>>
  /\ last' = [op |-> "remove_invalid", id |-> id]
  /\ LET a == id.a IN
     IF pending[a][id.n] # NoTx THEN
        LET gone == {Id(pending[a][n]) : n \in {m \in Dom(pending[a]) : m >= id.n}} \cup Ids(parked[a]) IN
        /\ pending' = [pending EXCEPT ![a] = [n \in Nonces |-> IF n >= id.n THEN NoTx ELSE pending[a][n]]]
        /\ parked' = [parked EXCEPT ![a] = EmptyQ]
        /\ contained' = contained \ gone
        /\ removed' = PutAll(Put(removed, id, "FailedExecution"), gone, "LowerNonceInvalidated")
     ELSE IF parked[a][id.n] # NoTx THEN
        LET gone == {Id(parked[a][n]) : n \in {m \in Dom(parked[a]) : m >= id.n}} IN
        /\ parked' = [parked EXCEPT ![a] = [n \in Nonces |-> IF n >= id.n THEN NoTx ELSE parked[a][n]]]
        /\ contained' = contained \ gone
        /\ removed' = PutAll(Put(removed, id, "FailedExecution"), gone, "LowerNonceInvalidated")
        /\ UNCHANGED pending
     ELSE UNCHANGED <<pending, parked, contained, removed>>

\* time passes: everything currently in the pool is now older than TX_TTL
Age ==
  /\ ops < MaxOps /\ ops' = ops + 1 /\ UNCHANGED <<contained, removed, fee, shown, accepted>>
  /\ last' = [op |-> "age"]
  /\ pending' = [a \in Accts |-> [n \in Nonces |-> IF pending[a][n] = NoTx THEN NoTx ELSE [pending[a][n] EXCEPT !.old = TRUE]]]
  /\ parked' = [a \in Accts |-> [n \in Nonces |-> IF parked[a][n] = NoTx THEN NoTx ELSE [parked[a][n] EXCEPT !.old = TRUE]]]

\* ---- clean_account_stale_expired on one queue: [q, gone: id -> reason]
Clean(q, cn, incl) ==
  LET stale == {n \in Dom(q) : n < cn}
      q1 == [n \in Nonces |-> IF n \in stale THEN NoTx ELSE q[n]]
      staleR == [id \in {Id(q[n]) : n \in stale} |-> IF id \in incl THEN "IncludedInBlock" ELSE "NonceStale"]
  IN IF Dom(q1) # {} /\ q1[Min(Dom(q1))].old
       THEN [q |-> EmptyQ,
             gone |-> staleR @@ [id \in Ids(q1) |-> IF id = Id(q1[Min(Dom(q1))]) THEN "Expired" ELSE "LowerNonceInvalidated"]]
       ELSE [q |-> q1, gone |-> staleR]

Recost(q, f) == [n \in Nonces |-> IF q[n] = NoTx THEN NoTx ELSE [q[n] EXCEPT !.cost = q[n].c + f]]

\* PendingTransactionsForAccount::find_demotables: keep the affordable prefix
RECURSIVE KeepPrefix(_, _, _)
KeepPrefix(q, S, avail) ==
  IF S = {} THEN {}
  ELSE LET n == Min(S) IN IF q[n].cost > avail THEN {} ELSE {n} \cup KeepPrefix(q, S \ {n}, avail - q[n].cost)

\* demote one by one through ParkedAdd (which sees the whole parked container for the total limit)
RECURSIVE Demote(_, _, _, _, _, _, _)
Demote(K, a, src, dem, cn, cont, rem) ==
  IF dem = {} THEN [K |-> K, cont |-> cont, rem |-> rem]
  ELSE LET n == Min(dem)
           t == src[n]
       IN IF ParkedAdd(K, t, cn) = "ok"
            THEN Demote([K EXCEPT ![a][n] = t], a, src, dem \ {n}, cn, cont, rem)
            ELSE Demote(K, a, src, dem \ {n}, cn, cont \ {Id(t)},
                        IF "F4" \in Dev THEN rem ELSE Put(rem, Id(t), "InternalError"))

\* the per-account body of run_maintenance; st = [P, K, cont, rem]
MaintainAcct(st, a, cn, bal, recost, f, incl) ==
  LET cp == Clean(st.P[a], cn, incl)
      ck == Clean(st.K[a], cn, incl)
      p1 == IF recost THEN Recost(cp.q, f) ELSE cp.q
      k1 == IF recost THEN Recost(ck.q, f) ELSE ck.q
      goneIds == DOMAIN cp.gone \cup DOMAIN ck.gone
      keep == KeepPrefix(p1, Dom(p1), bal)
      dem == Dom(p1) \ keep
      K1 == [st.K EXCEPT ![a] = k1]
  IN IF dem = {} THEN
       LET target == IF Dom(p1) = {} THEN cn ELSE Max(Dom(p1)) + 1
           run == PromoRun(k1, target, Monus(bal, SumCost(p1, Dom(p1))))
           res == Promote(p1, k1, run, cn, bal, st.cont, st.rem, "F4" \notin Dev)
       IN [P |-> [st.P EXCEPT ![a] = res.pq],
           K |-> [K1 EXCEPT ![a] = [n \in Nonces |-> IF n \in run THEN NoTx ELSE k1[n]]],
           cont |-> res.cont, rem |-> res.rem, gone |-> cp.gone @@ ck.gone @@ st.gone]
     ELSE
       LET p2 == [n \in Nonces |-> IF n \in dem THEN NoTx ELSE p1[n]]
           res == Demote(K1, a, p1, dem, cn, st.cont, st.rem)
       IN [P |-> [st.P EXCEPT ![a] = p2], K |-> res.K, cont |-> res.cont, rem |-> res.rem,
           gone |-> cp.gone @@ ck.gone @@ st.gone]

RECURSIVE MaintainAll(_, _, _, _, _, _, _)
MaintainAll(st, S, cn, bal, recost, f, incl) ==
  IF S = {} THEN st
  ELSE LET a == Min(S) IN MaintainAll(MaintainAcct(st, a, cn[a], bal[a], recost, f, incl), S \ {a}, cn, bal, recost, f, incl)

RECURSIVE PutGone(_, _)
PutGone(rem, g) == IF DOMAIN g = {} THEN rem
                   ELSE LET id == CHOOSE x \in DOMAIN g : TRUE
                        IN PutGone(Put(rem, id, g[id]), [y \in DOMAIN g \ {id} |-> g[y]])

\* ---- MempoolInner::run_maintenance(state, recost, block_execution_results, height)
\* cn / bal: the chain's nonce and balance per account; f: the chain's transfer fee; incl: ids executed in the block
Maintain(cn, bal, recost, f, incl) ==
  /\ ops < MaxOps /\ ops' = ops + 1
  /\ \A a \in Accts : cn[a] >= shown[a]
  /\ shown' = cn /\ fee' = f /\ UNCHANGED accepted
  /\ (~recost => f = fee)
  /\ LET touched == {a \in Accts : Dom(pending[a]) # {} \/ Dom(parked[a]) # {}}
         st0 == [P |-> pending, K |-> parked, cont |-> contained, rem |-> removed, gone |-> <<>>]
         st == MaintainAll(st0, touched, cn, bal, recost, f, incl)
     IN /\ pending' = st.P /\ parked' = st.K
        /\ contained' = st.cont \ DOMAIN st.gone
        /\ removed' = PutGone(st.rem, st.gone)
        /\ last' = [op |-> "maintain", cn |-> cn, bal |-> bal, recost |-> recost, fee |-> f, incl |-> incl]

\* the chain nonce shown to the mempool never decreases and advances by at most one step at a time here
NextNonces(a) == {shown[a], shown[a] + 1} \cap Nonces
Next == \/ \E id \in TxIds, bal \in BalChoices : \E cn \in NextNonces(id.a) : Insert(id, cn, bal)
        \/ \E id \in TxIds : RemoveInvalid(id)
        \/ Age
        \/ \E bal \in [Accts -> BalChoices], recost \in BOOLEAN, f \in {0, 1} :
           \E cn \in {c \in [Accts -> Nonces] : \A a \in Accts : c[a] \in NextNonces(a)} :
              \E incl \in {{}, UNION {{Id(pending[a][n]) : n \in {m \in Dom(pending[a]) : m < cn[a]}} : a \in Accts}} :
                 Maintain(cn, bal, recost, f, incl)
Spec == Init /\ [][Next]_vars

-----------------------------------------------------------------------------
(* C13 *)
\* every accepted transaction is in exactly one place: ready, parked, or reported as removed with a reason
ExactlyOnePlace ==
  /\ \A id \in accepted : (id \in AllIds(pending)) \/ (id \in AllIds(parked)) \/ (id \in DOMAIN removed)
  /\ AllIds(pending) \cap AllIds(parked) = {}
  /\ contained = AllIds(pending) \cup AllIds(parked)
\* the ready transactions that are not stale have consecutive nonces starting at the nonce last shown
Live(a) == {n \in Dom(pending[a]) : n >= shown[a]}
PendingConsecutive == \A a \in Accts : Live(a) # {} => Live(a) = shown[a]..Max(Live(a))
\* after maintenance against a chain state nothing with a used nonce remains, and the ready queue is affordable
AfterMaintain == last.op = "maintain" =>
  \A a \in Accts : /\ \A n \in Dom(pending[a]) \cup Dom(parked[a]) : n >= last.cn[a]
                   /\ SumCost(pending[a], Dom(pending[a])) <= last.bal[a]
                   /\ (Dom(pending[a]) # {} => Min(Dom(pending[a])) = last.cn[a])
\* a successful insert into ready is affordable from the balances shown in that call
AfterInsert == (last.op = "insert" /\ last.out = "AddedToPending") =>
  SumCost(pending[last.id.a], Dom(pending[last.id.a])) <= last.bal
ParkedLimits == /\ Count(parked) <= ParkedTotalLimit
                /\ \A a \in Accts : Cardinality(Dom(parked[a])) <= ParkedAcctLimit

-----------------------------------------------------------------------------
Q(q) == {[n |-> n, v |-> q[n].v, c |-> q[n].c, cost |-> q[n].cost] : n \in Dom(q)}
Proj(P, K, cont, rem) == [pending |-> [a \in Accts |-> Q(P[a])], parked |-> [a \in Accts |-> Q(K[a])],
                          contained |-> cont, removed |-> {[id |-> id, r |-> rem[id]] : id \in DOMAIN rem}]
OldIds(P, K) == UNION {{Id(P[a][n]) : n \in {m \in Dom(P[a]) : P[a][m].old}} \cup {Id(K[a][n]) : n \in {m \in Dom(K[a]) : K[a][m].old}} : a \in Accts}
LogStep == PrintT(<<"T", ToJson([s |-> [st |-> Proj(pending, parked, contained, removed), fee |-> fee, shown |-> shown,
                                        old |-> OldIds(pending, parked)],
                                 a |-> last',
                                 t |-> [st |-> Proj(pending', parked', contained', removed'), fee |-> fee', shown |-> shown',
                                        old |-> OldIds(pending', parked')]])>>)
=============================================================================
