-------------------------------- MODULE Wire --------------------------------
(***************************************************************************)
(* The decoder contract for untrusted wire data, and the lattice of         *)
(* structure-aware mutations of valid encodings it is explored over.        *)
(*                                                                         *)
(* A decoder is a two-stage machine: the bytes are parsed into a raw        *)
(* message (prost), the raw message is validated into a checked value       *)
(* (try_from_raw / CheckedTransaction::new).  From "bytes" it may only end  *)
(* in "error" or in "value"; a value is self-consistent: encoding it again  *)
(* and decoding that yields the same value, with all of the type's checks   *)
(* passing.  There is no third way out (a panic).                           *)
(*                                                                         *)
(* A TLA+ specification cannot range over byte strings.  What it ranges     *)
(* over here is the protobuf structure of a valid encoding: a mutation      *)
(* addresses a field by its path (index of the field at each nesting level, *)
(* taken modulo the number of fields actually there) and changes it in one  *)
(* of the ways below.  TLC enumerates the lattice; the harness applies each *)
(* point to real encodings and runs the real decoders (see DESIGN.md 9.7:   *)
(* this is an exploration, not a decision for all inputs).                  *)
(***************************************************************************)
EXTENDS Naturals, Sequences, FiniteSets, TLC, Json

CONSTANTS Types,      \* the wire types decoded from the network
          MaxDepth, MaxIdx

Kinds == {"delete", "duplicate", "truncate1", "len_plus1", "len_minus1", "flip_first", "flip_last",
          "varint_zero", "varint_plus1", "varint_max", "swap_next", "cut_here", "empty_payload",
          "extend32", "shrink32"}      \* a 32-byte segment more / less (audit paths, hashes)
Paths == UNION {[1..d -> 1..MaxIdx] : d \in 1..MaxDepth}

\* ---- the contract
VARIABLES ty, path, kind, pc, consistent
vars == <<ty, path, kind, pc, consistent>>

Init == /\ ty \in Types /\ path \in Paths /\ kind \in Kinds /\ pc = "bytes" /\ consistent = TRUE
\* parsing and validating may each refuse the input; nothing else can happen to it
Parse == pc = "bytes" /\ pc' \in {"raw", "error"} /\ UNCHANGED <<ty, path, kind, consistent>>
Validate == pc = "raw" /\ pc' \in {"value", "error"} /\ UNCHANGED <<ty, path, kind, consistent>>
Next == Parse \/ Validate
Spec == Init /\ [][Next]_vars

Outcomes == {"bytes", "raw", "error", "value"}
NoThirdWayOut == pc \in Outcomes
AcceptedIsConsistent == pc = "value" => consistent

Export == pc = "bytes" => PrintT(<<"T", ToJson([ty |-> ty, path |-> path, kind |-> kind])>>)
=============================================================================
