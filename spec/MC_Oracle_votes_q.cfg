CONSTANTS NV = 3  MaxPower = 2  Kinds = {"absent","nil","ok","empty","emptyforged","forged","other","nosig","longprice","toomany","nilext","nilsig"}  SignedCorrection = TRUE  Part = "votes"
INIT Init
NEXT Next
INVARIANTS AcceptOnlyIf EmptyAlwaysOk HonestAccepted MedianInRange Export
CHECK_DEADLOCK FALSE
