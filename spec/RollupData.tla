----------------------------- MODULE RollupData -----------------------------
(***************************************************************************)
(* What a rollup sees of a sequencer block, from the block's transactions   *)
(* to every form in which the block is stored, served and published:        *)
(* proposal/commitment.rs (generate_rollup_datas_commitment), app/mod.rs    *)
(* (finalize_block: rollup data = sequenced payloads then deposits),        *)
(* grpc/state_ext.rs + grpc/sequencer.rs (stored, full and filtered forms), *)
(* astria-core sequencerblock/v1 (SequencerBlock, FilteredSequencerBlock,   *)
(* split_for_celestia, try_from_raw verification) and conductor's           *)
(* reconstruct.rs (rollup blob audited against the metadata's root).        *)
(*                                                                         *)
(* A case is a block (its actions in block order, cut into transactions),   *)
(* a set of rollups a client asks for, and at most one tampering of what is *)
(* served or published.  The specification says what each rollup must see   *)
(* and which tampered forms a receiver must refuse; the Merkle machinery    *)
(* that makes this checkable is the implementation's business.              *)
(***************************************************************************)
EXTENDS Naturals, Sequences, FiniteSets, TLC, Json

CONSTANTS ExportMode,  \* TRUE: only the block shape varies (req, tamper, form are pinned; ExportBlock ranges over them itself)
          Rollups,     \* rollup ids that may occur in a block
          Absent,      \* a rollup id that never does
          MaxActs,     \* actions per block
          Payloads     \* payload identities (equal identities = byte-identical payloads)

\* an action: sequenced data for a rollup, or a bridge lock producing a deposit for the rollup of the bridge account
Acts == [k : {"data"}, r : Rollups, p : Payloads] \cup [k : {"lock"}, r : Rollups, p : {1, 2}]

Tampers == {"none", "alter_item", "swap_first_two", "drop_last", "append_item", "relabel_to_absent", "relabel_to_other",
            "other_block_hash", "ids_drop", "ids_add"}

VARIABLES acts,    \* Seq(Acts): the block's actions in block order
          cuts,    \* where transactions end: a subset of 1..Len(acts)-1 (an action after which a new transaction starts)
          req,     \* the rollups a client asks the filtered block for
          tamper,  \* [kind, r]: what is done to the data of rollup r (or to the block-level fields) before it reaches a receiver
          form     \* which form is tampered with: "full" | "filtered" | "celestia"
vars == <<acts, cuts, req, tamper, form>>

\* indices of the actions satisfying P, in block order
Sel(P(_)) == LET F[i \in 0..Len(acts)] == IF i = 0 THEN <<>> ELSE IF P(acts[i]) THEN Append(F[i - 1], i) ELSE F[i - 1]
             IN F[Len(acts)]
\* what rollup r must see: its payloads in block order, then its deposits in block order.  Two sequenced payloads with
\* the same identity are byte-identical; two deposits never are (each names the transaction and action it came from),
\* hence the action's position in a deposit item.
Items(r) == [i \in 1..Len(Sel(LAMBDA a : a.k = "data" /\ a.r = r)) |->
               <<"p", acts[Sel(LAMBDA a : a.k = "data" /\ a.r = r)[i]].p, 0>>]
            \o [i \in 1..Len(Sel(LAMBDA a : a.k = "lock" /\ a.r = r)) |->
               <<"d", acts[Sel(LAMBDA a : a.k = "lock" /\ a.r = r)[i]].p, Sel(LAMBDA a : a.k = "lock" /\ a.r = r)[i]>>]
\* as the harness names an item: kind and payload identity / deposit amount
Shown(r) == [i \in 1..Len(Items(r)) |-> <<Items(r)[i][1], Items(r)[i][2]>>]
Ids == {r \in Rollups : Items(r) # <<>>}
\* the filtered form lists data only for requested rollups that have some, and always names all rollups with data
Filtered == [r \in (req \cap Ids) |-> Items(r)]

\* does the tampering t change anything? (swapping two identical items does not)
EffectiveT(t) ==
  CASE t.kind = "none" -> FALSE
    [] t.kind = "swap_first_two" -> Len(Items(t.r)) >= 2 /\ Items(t.r)[1] # Items(t.r)[2]
    [] t.kind \in {"alter_item", "drop_last"} -> Len(Items(t.r)) >= 1
    [] OTHER -> TRUE
\* can it be applied to form f of this block, filtered to q?
ApplicableT(t, f, q) ==
  CASE t.kind = "none" -> TRUE
    [] t.kind \in {"alter_item", "swap_first_two", "drop_last", "append_item", "relabel_to_absent", "relabel_to_other"} ->
         /\ t.r \in Ids /\ (f = "filtered" => t.r \in q)
         /\ (t.kind = "swap_first_two" => Len(Items(t.r)) >= 2)
         /\ (t.kind = "relabel_to_other" => \E o \in Rollups : o # t.r)
    [] t.kind = "ids_drop" -> Ids # {}
    [] t.kind = "ids_add" -> TRUE
    \* the CometBFT block hash is taken on trust by the full and filtered forms; only the Celestia form ties rollup data
    \* to a block whose hash a commit vouches for
    [] t.kind = "other_block_hash" -> f = "celestia" /\ t.r \in Ids
    [] OTHER -> TRUE
\* the receiver's verdict.  "reject": the form is refused.  A receiver that keys what it holds by rollup id may instead
\* discard a forged duplicate entry and accept the rest ("reject_or_subset"): what it then holds must still be genuine
\* -- for every rollup it holds data for exactly Items(r), and the genuine list of rollup ids.  Never may anything
\* that is not genuine be accepted.
VerdictTF(t, f) == IF ~EffectiveT(t) THEN "accept"
                   ELSE IF t.kind = "relabel_to_other" /\ f = "filtered" THEN "reject_or_subset"
                   ELSE "reject"
VerdictT(t) == VerdictTF(t, "full")
Effective == EffectiveT(tamper)
Applicable == ApplicableT(tamper, form, req)
Verdict == VerdictT(tamper)

Init == /\ \E n \in 0..MaxActs : acts \in [1..n -> Acts]
        /\ cuts \in SUBSET (1..MaxActs)
        /\ req \in (IF ExportMode THEN {{}} ELSE SUBSET (Rollups \cup {Absent}))
        /\ tamper \in (IF ExportMode THEN {[kind |-> "none", r |-> CHOOSE x \in Rollups : TRUE]} ELSE [kind : Tampers, r : Rollups])
        /\ form \in (IF ExportMode THEN {"full"} ELSE {"full", "filtered", "celestia"})
Next == UNCHANGED vars
Spec == Init /\ [][Next]_vars

-----------------------------------------------------------------------------
(* C07 at the level of the specification: sanity of the definitions *)
\* every sequenced payload and every deposit of the block is seen by exactly its rollup, once
SumLen == LET F[S \in SUBSET Rollups] == IF S = {} THEN 0 ELSE LET r == CHOOSE x \in S : TRUE IN Len(Items(r)) + F[S \ {r}]
          IN F[Rollups]
Complete == SumLen = Len(acts)
IdsExact == \A r \in Rollups : (r \in Ids) <=> \E i \in 1..Len(acts) : acts[i].r = r
AbsentNeverServed == Absent \notin DOMAIN Filtered
PayloadsBeforeDeposits == \A r \in Ids : \A i, j \in 1..Len(Items(r)) : (Items(r)[i][1] = "d" /\ Items(r)[j][1] = "p") => j < i

\* one line per block: what every rollup must see, what each filter must yield, and the verdict on every applicable
\* tampering of every form (the filtered form is tampered with as served for all rollups)
AllReq == Rollups \cup {Absent}
ExportBlock == (cuts \subseteq 1..(Len(acts) - 1) /\ req = {} /\ tamper = [kind |-> "none", r |-> CHOOSE x \in Rollups : TRUE] /\ form = "full") =>
  PrintT(<<"T", ToJson([acts |-> acts, cuts |-> cuts, ids |-> Ids, items |-> [r \in Ids |-> Shown(r)],
                        filters |-> {[req |-> q, has |-> q \cap Ids] : q \in SUBSET AllReq},
                        tampers |-> UNION {{[form |-> f, kind |-> t.kind, r |-> t.r, verdict |-> VerdictTF(t, f)] :
                                              t \in {x \in [kind : Tampers, r : Rollups] : ApplicableT(x, f, AllReq)}} :
                                           f \in {"full", "filtered", "celestia"}}])>>)
=============================================================================
