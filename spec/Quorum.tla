------------------------------- MODULE Quorum -------------------------------
(***************************************************************************)
(* astria-conductor celestia/block_verifier.rs (ensure_commit_has_quorum), *)
(* celestia/verify.rs (BlobVerifier::verify_metadata) and                  *)
(* celestia/reconstruct.rs (reconstruct_blocks_from_verified_blobs).       *)
(*                                                                         *)
(* The state of this specification is one *case*: a validator set, a       *)
(* commit (a sequence of signature entries, possibly with a duplicate or   *)
(* an unknown signer), a metadata blob and a rollup-data blob read from    *)
(* Celestia.  There are no transitions; TLC enumerates all cases within    *)
(* the bounds, evaluates the decision procedure transcribed from the code, *)
(* and checks it against the property (">2/3 of the voting power, by       *)
(* distinct validators with valid signatures over this block").            *)
(***************************************************************************)
EXTENDS Naturals, Sequences, FiniteSets, TLC, Json

CONSTANTS NV,            \* number of validators
          MaxPower,      \* powers range over 1..MaxPower
          SlotKinds,     \* kinds a validator's own slot may take
          Extras,        \* extra trailing entries: subset of {"none","dup","unknown"}
          QuorumRule,    \* "exact" (3*c > 2*t) | "floor_first" (c > (t \div 3) * 2, the pre-fix code)
          CountDuplicates,  \* TRUE: a validator listed twice is counted twice (the pre-fix code)
          DropOnMismatch,   \* FALSE: metadata with wrong hash / chain id is logged but kept (the pre-fix code)
          PowerCap,      \* u64::MAX in units of the power scale (total voting power above it overflows)
          Part           \* "commit" | "pipeline"

Val == 1..NV
Unknown == 0

\* An entry of Commit.signatures.  kind:
\*   "absent" | "nil"            : BlockIdFlagAbsent / BlockIdFlagNil, ignored
\*   "valid"                     : BlockIdFlagCommit, signature by v over this block's canonical vote
\*   "forged"                    : BlockIdFlagCommit, signature bytes not by v's key
\*   "other"                     : BlockIdFlagCommit, v's signature over a different block id
\*   "missing"                   : BlockIdFlagCommit without signature
Entry(v, k) == [v |-> v, kind |-> k]

VARIABLES powers,   \* [Val -> 1..MaxPower]
          commit,   \* Seq(Entry)
          meta,     \* [hash: {"h","x"}, chain: {"c","y"}]      the metadata blob (pipeline part)
          rblob,    \* [hash: {"h","x","-"}, proof: {"ok","bad"}, rid: {"target","other"}]   ("-": no rollup blob)
          junk      \* "none" | "before" | "after": a further well-formed rollup-data entry naming the metadata's
                    \* block hash but failing the Merkle audit, placed before / after the genuine one
vars == <<powers, commit, meta, rblob, junk>>

OwnSlots == [Val -> SlotKinds]
ExtraEntries(slots) ==
  (IF "none" \in Extras THEN {<<>>} ELSE {})
  \cup (IF "dup" \in Extras THEN {<<Entry(v, "valid")>> : v \in {w \in Val : slots[w] = "valid"}} ELSE {})
  \cup (IF "unknown" \in Extras THEN {<<Entry(Unknown, "valid")>>} ELSE {})

\* the two commits used by the pipeline part: everybody signs / nobody does
AllSign == [v \in Val |-> Entry(v, "valid")]
NoneSign == [v \in Val |-> Entry(v, "absent")]

Init ==
  IF Part = "commit"
    THEN /\ powers \in [Val -> 1..MaxPower]
         /\ \E slots \in OwnSlots : \E ex \in ExtraEntries(slots) :
              commit = [v \in Val |-> Entry(v, slots[v])] \o ex
         /\ meta = [hash |-> "h", chain |-> "c"]
         /\ rblob = [hash |-> "-", proof |-> "ok", rid |-> "target"]
         /\ junk = "none"
    ELSE /\ powers = [v \in Val |-> 1]
         /\ commit \in {AllSign, NoneSign}
         /\ meta \in [hash : {"h", "x"}, chain : {"c", "y"}]
         /\ rblob \in [hash : {"h", "x", "-"}, proof : {"ok", "bad"}, rid : {"target", "other"}]
         /\ junk \in {"none", "before", "after"}

Next == UNCHANGED vars
Spec == Init /\ [][Next]_vars

-----------------------------------------------------------------------------
RECURSIVE SumP(_)
SumP(S) == IF S = {} THEN 0 ELSE LET v == CHOOSE x \in S : TRUE IN powers[v] + SumP(S \ {v})
Total == SumP(Val)

\* ensure_commit_has_quorum, entry by entry, in order.  Result: [err, power]
RECURSIVE Fold(_, _, _)
Fold(es, acc, seen) ==
  IF es = <<>> THEN [err |-> "none", power |-> acc]
  ELSE LET e == Head(es) IN
       IF e.kind \in {"absent", "nil"} THEN Fold(Tail(es), acc, seen)
       ELSE IF e.kind = "missing" THEN [err |-> "EmptySignature", power |-> acc]
       ELSE IF e.v = Unknown THEN [err |-> "NoSuchValidator", power |-> acc]
       ELSE IF ~CountDuplicates /\ e.v \in seen THEN [err |-> "DuplicateVote", power |-> acc]
       ELSE IF e.kind \in {"forged", "other"} THEN [err |-> "VerifyVoteSignature", power |-> acc]
       ELSE Fold(Tail(es), acc + powers[e.v], seen \cup {e.v})

HasQuorum(c, t) == IF QuorumRule = "exact" THEN 3 * c > 2 * t
                   ELSE IF t < 3 THEN 3 * c > 2 * t ELSE c > (t \div 3) * 2

\* Result of ensure_commit_has_quorum: "ok" or the error name
CommitVerdict ==
  LET f == Fold(commit, 0, {}) IN
  IF Total > PowerCap THEN "TotalVotingPowerOverflowed"      \* checked_add over the validator set, before any vote
  ELSE IF f.err # "none" THEN f.err
  ELSE IF f.power > Total THEN "CommitVotingPowerExceedsTotal"
  ELSE IF HasQuorum(f.power, Total) THEN "ok" ELSE "NoQuorum"

\* The property's own notion: distinct validators whose entry is a valid signature over this block
ValidSigners == {v \in Val : \E i \in 1..Len(commit) : commit[i].v = v /\ commit[i].kind = "valid"}
PropertyQuorum == 3 * SumP(ValidSigners) > 2 * Total

\* (1) soundness: the code accepts only if the property's condition holds
AcceptOnlyWithQuorum == CommitVerdict = "ok" => PropertyQuorum
\* (2) no needless rejection of a well-formed commit (one entry per validator, no forged/missing entries)
WellFormed == /\ Len(commit) = NV
              /\ \A i \in 1..NV : commit[i].v = i /\ commit[i].kind \in {"absent", "nil", "valid"}
AcceptWellFormedWithQuorum == (WellFormed /\ PropertyQuorum) => CommitVerdict = "ok"
\* (3) the error reported is the first one met in commit order (keeps the transcription honest)
NeverExceedsTotal == CommitVerdict # "CommitVotingPowerExceedsTotal" \/ CountDuplicates

-----------------------------------------------------------------------------
(* Pipeline: verify_metadata keeps a metadata blob only if the commit for its height has quorum and
   the commit's block hash and chain id equal the blob's; reconstruct attaches a rollup blob only to kept
   metadata with the same block hash and a valid Merkle proof.  "h" / "c" are the commit's values. *)
MetaKept == /\ CommitVerdict = "ok"
            /\ (DropOnMismatch => meta.hash = "h" /\ meta.chain = "c")
RollupAttached == /\ MetaKept /\ rblob.hash = meta.hash /\ rblob.proof = "ok"
\* metadata lists the target rollup iff a rollup blob for it was submitted with it ("rid" = "target")
MetaContainsTarget == rblob.hash # "-" /\ rblob.rid = "target"
\* Junk entries never bind (their audit fails) and a failed audit leaves the header in place, so they change
\* nothing: Reconstructed does not mention `junk`.  The harness nevertheless places one and requires the same result.
\* what reconstruct_blocks_from_verified_blobs yields: "none" | "empty" (block without data) | "with_data"
\* (a rollup blob of another rollup is never fetched into the rollup namespace, so rid = "other" here
\*  stands for "no blob of ours, and the metadata does not list us")
Reconstructed ==
  IF ~MetaKept THEN "none"
  ELSE IF rblob.hash # "-" /\ rblob.rid = "target" /\ RollupAttached THEN "with_data"
  ELSE IF MetaContainsTarget THEN "none"      \* expected a rollup blob, none matched: dropped
  ELSE "empty"

FirmOnlyIfCommitted == Reconstructed # "none" => (PropertyQuorum /\ meta.hash = "h" /\ meta.chain = "c")
DataOnlyIfBound == Reconstructed = "with_data" => (rblob.hash = meta.hash /\ rblob.proof = "ok")

-----------------------------------------------------------------------------
Export == PrintT(<<"T", ToJson([part |-> Part, powers |-> powers, commit |-> commit, meta |-> meta, rblob |-> rblob,
                                junk |-> junk,
                                verdict |-> CommitVerdict, reconstructed |-> Reconstructed,
                                nontrivial |-> (\E i \in 1..Len(commit) : commit[i].kind \notin {"absent", "nil"})])>>)
=============================================================================
