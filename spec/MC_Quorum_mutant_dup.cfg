CONSTANTS NV = 3  MaxPower = 3  SlotKinds = {"absent","valid"}  Extras = {"none","dup"}
  QuorumRule = "exact"  CountDuplicates = TRUE  DropOnMismatch = TRUE  PowerCap = 1000000  Part = "commit"
INIT Init
NEXT Next
INVARIANTS AcceptOnlyWithQuorum AcceptWellFormedWithQuorum NeverExceedsTotal FirmOnlyIfCommitted DataOnlyIfBound Export
CHECK_DEADLOCK FALSE
