CONSTANTS Keys = {1, 2, 3}  Powers = {0, 1, 2}  MaxTxs = 3  MaxBlocks = 3  PostAspen = TRUE  AllowUpgrade = FALSE
INIT Init
NEXT Next
INVARIANTS MirrorOrKnown BatchApplicableOrKnown NeverEmptyOrKnown
ACTION_CONSTRAINT LogStep
CHECK_DEADLOCK FALSE
