CONSTANTS MaxH = 4  MaxOps = 6
INIT Init
NEXT Next
INVARIANTS StrictlyIncreasing GapsOnlyByDrop NeverObsolete NothingStale
ACTION_CONSTRAINT LogStep
CHECK_DEADLOCK FALSE
