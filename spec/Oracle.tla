------------------------------- MODULE Oracle -------------------------------
(***************************************************************************)
(* Vote-extension (oracle price) validation and aggregation:               *)
(* app/vote_extension.rs (ProposalHandler::validate_proposal,              *)
(* validate_extended_commit_against_last_commit, validate_vote_extensions, *)
(* verify_vote_extension) and astria-core oracles/price_feed/utils.rs      *)
(* (median).                                                               *)
(*                                                                         *)
(* The state is one case: validator powers, the extended commit a proposer *)
(* put into the block (one entry per validator in commit order, possibly   *)
(* one extra entry), how it relates to the previous height's commit, and a *)
(* vector of prices for the median.  TLC enumerates the cases, evaluates   *)
(* the transcribed procedure and checks it against the property.           *)
(***************************************************************************)
EXTENDS Integers, Sequences, FiniteSets, TLC, Json

CONSTANTS NV, MaxPower,
          Kinds,       \* entry kinds a validator's slot may take
          Part,        \* "votes" | "lastcommit" | "median"
          SignedCorrection   \* TRUE: the rounding correction of the even-length median carries the sign of the
                             \* remainders (the repaired code); FALSE: +1 only when both remainders equal 1 (F10)

Val == 1..NV
\* entry kinds:
\*  "absent"   BlockIdFlag absent, no extension, no signature
\*  "nil"      BlockIdFlag nil,    no extension, no signature
\*  "ok"       commit, well-formed price extension, signed by the validator over (extension, height-1, round, chain id)
\*  "empty"    commit, empty extension, validly signed
\*  "emptyforged" commit, empty extension, "signed" by a key outside the validator set
\*  "forged"   commit, extension signed by a key outside the validator set
\*  "other"    commit, extension signed by another validator's key
\*  "nosig"    commit, extension, no signature
\*  "longprice" commit, validly signed extension holding a price of more than 33 bytes
\*  "toomany"  commit, validly signed extension with more prices than there are currency pairs
\*  "nilext"   nil flag but an extension present
\*  "nilsig"   nil flag, empty extension, but a signature present
Counts(k) == k \in {"ok", "empty", "emptyforged", "forged", "other", "nosig", "longprice", "toomany"}   \* commit flag
SigBad(k) == k \in {"forged", "other", "emptyforged"}

VARIABLES powers,   \* [Val -> 1..MaxPower]
          votes,    \* Seq([v, kind]); v = 0 is a signer that is not a validator
          lc,       \* relation of the previous height's commit to the extended commit:
                    \* "same" | "round" | "len" | "addr" | "power" (of the last entry) | "power_first" (of the first entry,
                    \* the absent one where there is one) | "flag"
          prices    \* Seq(Int): prices reported for one pair (median part)
vars == <<powers, votes, lc, prices>>

E(v, k) == [v |-> v, kind |-> k]
AllOk == [v \in Val |-> E(v, "ok")]

Init ==
  CASE Part = "votes" ->
         /\ powers \in [Val -> 1..MaxPower] /\ lc = "same" /\ prices = <<>>
         /\ \E slots \in [Val -> Kinds], extra \in {"none", "dup", "unknown"} :
              votes = [v \in Val |-> E(v, slots[v])]
                      \o (IF extra = "dup" THEN <<E(1, slots[1])>> ELSE IF extra = "unknown" THEN <<E(0, "ok")>> ELSE <<>>)
    [] Part = "lastcommit" ->
         \* the first validator (the absent one in the third vote set) is light enough for the others to reach > 2/3 alone
         /\ powers = [v \in Val |-> IF v = 1 THEN 1 ELSE 3] /\ prices = <<>>
         /\ votes \in {AllOk, <<>>, [v \in Val |-> E(v, IF v = 1 THEN "absent" ELSE "ok")]}
         /\ lc \in {"same", "round", "len", "addr", "power", "power_first", "flag"}
    [] Part = "median" ->
         /\ powers = [v \in Val |-> 1] /\ votes = AllOk /\ lc = "same"
         /\ \E n \in 1..4 : prices \in [1..n -> -3..3]

Next == UNCHANGED vars
Spec == Init /\ [][Next]_vars

-----------------------------------------------------------------------------
\* validate_extended_commit_against_last_commit: entry by entry
LastCommitOK ==
  /\ lc # "round" /\ lc # "len" /\ lc # "addr" /\ lc # "power" /\ lc # "power_first"
  \* a flag mismatch is tolerated only for an entry that is absent + empty + unsigned in the extended commit
  /\ lc = "flag" => \A i \in 1..Len(votes) : votes[i].kind = "absent"

\* validate_vote_extensions: first error met in order, else the tallies
RECURSIVE Tally(_, _, _, _)
Tally(es, seen, total, sub) ==
  IF es = <<>> THEN [err |-> "none", total |-> total, sub |-> sub]
  ELSE LET e == Head(es) IN
       IF e.v \in seen THEN [err |-> "voted_twice", total |-> total, sub |-> sub]
       ELSE LET p == IF e.v = 0 THEN 1 ELSE powers[e.v]
                t2 == total + p
            IN IF ~Counts(e.kind)
                 THEN IF e.kind = "nilext" THEN [err |-> "non_commit_extension", total |-> t2, sub |-> sub]
                      ELSE IF e.kind = "nilsig" THEN [err |-> "non_commit_signature", total |-> t2, sub |-> sub]
                      ELSE Tally(Tail(es), seen \cup {e.v}, t2, sub)
               ELSE IF e.kind = "nosig" THEN [err |-> "signature_missing", total |-> t2, sub |-> sub]
               ELSE IF e.v = 0 THEN [err |-> "unknown_validator", total |-> t2, sub |-> sub + p]
               ELSE IF SigBad(e.kind) THEN [err |-> "bad_signature", total |-> t2, sub |-> sub + p]
               ELSE Tally(Tail(es), seen \cup {e.v}, t2, sub + p)

\* submitted >= total * 2 / 3 + 1
EnoughPower(sub, total) == sub >= (total * 2) \div 3 + 1

\* ProposalHandler::validate_proposal: "accept" or the reason for rejecting
Verdict ==
  IF votes = <<>> THEN (IF lc = "round" THEN "round_mismatch" ELSE "accept")
  ELSE IF ~LastCommitOK THEN "last_commit_mismatch"
  ELSE LET t == Tally(votes, {}, 0, 0) IN
       IF t.err # "none" THEN t.err
       ELSE IF t.total = 0 THEN "zero_power"
       ELSE IF ~EnoughPower(t.sub, t.total) THEN "insufficient_power"
       ELSE IF \E i \in 1..Len(votes) : votes[i].kind \in {"longprice", "toomany"} THEN "bad_extension"
       ELSE "accept"

-----------------------------------------------------------------------------
(* C15 *)
SumP(S) == LET RECURSIVE F(_)
               F(T) == IF T = {} THEN 0 ELSE LET x == CHOOSE y \in T : TRUE IN powers[x] + F(T \ {x})
           IN F(S)
Listed == {votes[i].v : i \in 1..Len(votes)} \ {0}
ValidlySigned == {v \in Val : \E i \in 1..Len(votes) : votes[i].v = v /\ votes[i].kind \in {"ok", "empty", "longprice", "toomany"}}
NoDup == \A i, j \in 1..Len(votes) : i # j => votes[i].v # votes[j].v
\* prices are updated only if: matches the last commit, every included extension validly signed by the validator it is
\* attributed to, strictly more than 2/3 of the listed power contributed, nobody listed twice
AcceptOnlyIf ==
  (Verdict = "accept" /\ votes # <<>>) =>
     /\ lc \in {"same", "flag"}
     /\ NoDup
     /\ \A i \in 1..Len(votes) : Counts(votes[i].kind) => (votes[i].v # 0 /\ ~SigBad(votes[i].kind) /\ votes[i].kind # "nosig")
     /\ 3 * SumP(ValidlySigned) > 2 * SumP(Listed)
\* an empty extended commit (with the right round) is always acceptable: block production continues
EmptyAlwaysOk == (votes = <<>> /\ lc # "round") => Verdict = "accept"
\* a fully honest extended commit is accepted
HonestAccepted == (lc = "same" /\ NoDup /\ \A i \in 1..Len(votes) : votes[i].v # 0 /\ votes[i].kind \in {"ok", "empty", "absent", "nil"})
                    => (Verdict = "accept" <=> (votes = <<>> \/ 3 * SumP(ValidlySigned) > 2 * SumP(Listed)))

\* utils.rs median: sort; odd length: the middle; even: lo/2 + hi/2 halving toward zero, plus a correction when both
\* halvings rounded in the same direction
Sorted(s) == \A i \in 1..(Len(s) - 1) : s[i] <= s[i + 1]
SortedCopy(s) == CHOOSE t \in [1..Len(s) -> -3..3] : Sorted(t) /\ \A x \in -3..3 :
                 Cardinality({i \in 1..Len(s) : s[i] = x}) = Cardinality({i \in 1..Len(t) : t[i] = x})
HalfTowardZero(x) == IF x >= 0 THEN x \div 2 ELSE -((-x) \div 2)
RemTowardZero(x) == x - 2 * HalfTowardZero(x)          \* Rust's `%`: -3 % 2 = -1
Median(s) == LET t == SortedCopy(s) n == Len(s) mid == n \div 2 IN
             IF n % 2 = 1 THEN t[mid + 1]
             ELSE LET lo == t[mid] hi == t[mid + 1]
                      sum == HalfTowardZero(hi) + HalfTowardZero(lo)
                  IN IF SignedCorrection THEN sum + HalfTowardZero(RemTowardZero(hi) + RemTowardZero(lo))
                     ELSE IF RemTowardZero(hi) = 1 /\ RemTowardZero(lo) = 1 THEN sum + 1 ELSE sum
Min(s) == CHOOSE x \in {s[i] : i \in 1..Len(s)} : \A j \in 1..Len(s) : x <= s[j]
Max(s) == CHOOSE x \in {s[i] : i \in 1..Len(s)} : \A j \in 1..Len(s) : x >= s[j]
MedianInRange == prices # <<>> => (Min(prices) <= Median(prices) /\ Median(prices) <= Max(prices))

-----------------------------------------------------------------------------
Export == PrintT(<<"T", ToJson([part |-> Part, powers |-> powers, votes |-> votes, lc |-> lc, prices |-> prices,
                                verdict |-> Verdict, median |-> IF prices = <<>> THEN 0 ELSE Median(prices)])>>)
=============================================================================
