CONSTANTS ExportMode = TRUE  Rollups = {1, 2, 3}  Absent = 9  MaxActs = 3  Payloads = {1, 2}
INIT Init
NEXT Next
INVARIANTS ExportBlock
CHECK_DEADLOCK FALSE
