CONSTANTS MaxBytes = 0  Sizes = {0}
CONSTANT Log <- TraceLog
CONSTANT MaxH <- TraceMaxH
INIT TInit
NEXT TNext
INVARIANTS ExactlyOnceInOrder NotAccepted
CHECK_DEADLOCK FALSE
