------------------------------ MODULE Composer ------------------------------
(***************************************************************************)
(* astria-composer executor/bundle_factory/mod.rs: BundleFactory.          *)
(*                                                                         *)
(* Abstract state: the bundle being filled (curr), the FIFO of finished    *)
(* bundles, and two ghost sequences: every item try_push accepted, and     *)
(* every bundle handed out by NextFinishedBundle::pop / pop_now.  An item  *)
(* is its acceptance-independent serial number; its encoded size is        *)
(* size[item] abstract units (the harness pads the payload so that the     *)
(* protobuf encoded_len is exactly units * UNIT bytes).                    *)
(***************************************************************************)
EXTENDS Naturals, Sequences, FiniteSets, TLC, Json, SequencesExt

CONSTANTS MaxSize,    \* max_bytes_per_bundle, in units
          MaxItem,    \* item sizes offered: 1..MaxItem  (MaxItem > MaxSize exercises SequenceActionTooLarge)
          Cap,        \* finished_queue_capacity
          MaxOps,     \* bound on the number of operations in a behaviour
          GeBug       \* mutant switch: TRUE models `new_size >= max_size` (selftest only)

VARIABLES curr,       \* Seq(item)
          finished,   \* Seq(Seq(item))
          size,       \* Seq(units): size[i] is the size of item i (items are numbered as offered)
          accepted,   \* ghost: items accepted, in order
          emitted,    \* ghost: bundles handed out, in order
          last        \* the operation that produced this state: [op, arg, out]

vars == <<curr, finished, size, accepted, emitted, last>>
View == <<curr, finished, size, accepted, emitted>>

RECURSIVE SumSz(_, _)
SumSz(b, sz) == IF b = <<>> THEN 0 ELSE sz[Head(b)] + SumSz(Tail(b), sz)
RECURSIVE Flatten(_)
Flatten(bs) == IF bs = <<>> THEN <<>> ELSE Head(bs) \o Flatten(Tail(bs))

Ops == Len(size) + Len(emitted)

Init == /\ curr = <<>> /\ finished = <<>> /\ size = <<>> /\ accepted = <<>> /\ emitted = <<>>
        /\ last = [op |-> "init", arg |-> 0, out |-> "ok"]

Fits(s) == IF GeBug THEN SumSz(curr, size) + s < MaxSize ELSE SumSz(curr, size) + s <= MaxSize

\* BundleFactory::try_push
TryPush(s) ==
  LET id == Len(size) + 1
      sz2 == Append(size, s)
  IN /\ Ops < MaxOps
     /\ size' = sz2
     /\ UNCHANGED emitted
     /\ IF s > MaxSize
          THEN /\ UNCHANGED <<curr, finished, accepted>>           \* SequenceActionTooLarge
               /\ last' = [op |-> "push", arg |-> s, out |-> "too_large"]
        ELSE IF Fits(s)
          THEN /\ curr' = Append(curr, id) /\ accepted' = Append(accepted, id)
               /\ UNCHANGED finished
               /\ last' = [op |-> "push", arg |-> s, out |-> "ok"]
        ELSE IF Len(finished) >= Cap
          THEN /\ UNCHANGED <<curr, finished, accepted>>           \* FinishedQueueFull
               /\ last' = [op |-> "push", arg |-> s, out |-> "queue_full"]
        ELSE   /\ finished' = Append(finished, curr)               \* flush, start a new bundle
               /\ curr' = <<id>> /\ accepted' = Append(accepted, id)
               /\ last' = [op |-> "push", arg |-> s, out |-> "ok"]

\* BundleFactory::next_finished().map(NextFinishedBundle::pop)
NextFinished ==
  /\ Ops < MaxOps
  /\ UNCHANGED <<curr, size, accepted>>
  /\ IF finished = <<>>
       THEN /\ UNCHANGED <<finished>> /\ emitted' = Append(emitted, <<>>)   \* None: recorded as an empty hand-out
            /\ last' = [op |-> "next_finished", arg |-> 0, out |-> "none"]
       ELSE /\ emitted' = Append(emitted, Head(finished)) /\ finished' = Tail(finished)
            /\ last' = [op |-> "next_finished", arg |-> 0, out |-> "some"]

\* BundleFactory::pop_now
PopNow ==
  /\ Ops < MaxOps
  /\ UNCHANGED <<size, accepted>>
  /\ last' = [op |-> "pop_now", arg |-> 0, out |-> "ok"]
  /\ IF finished # <<>>
       THEN /\ emitted' = Append(emitted, Head(finished)) /\ finished' = Tail(finished) /\ UNCHANGED curr
       ELSE /\ emitted' = Append(emitted, curr) /\ curr' = <<>> /\ UNCHANGED finished

Next == \/ \E s \in 1..MaxItem : TryPush(s)
        \/ NextFinished
        \/ PopNow
Spec == Init /\ [][Next]_vars

-----------------------------------------------------------------------------
AllBundles == emitted \o finished \o <<curr>>
\* every accepted item is in exactly one bundle; bundles and items keep acceptance order
ExactlyOnceInOrder == Flatten(AllBundles) = accepted
WithinMax == \A i \in 1..Len(AllBundles) : SumSz(AllBundles[i], size) <= MaxSize
FinishedWithinCap == Len(finished) <= Cap
NoEmptyFinished == \A i \in 1..Len(finished) : finished[i] # <<>>
\* a refusal happens only when the item alone is too large or the finished queue is full (and the item does
\* not fit the current bundle), and it leaves everything accepted so far untouched
RefusalOnlyIf == [][ (last'.op = "push" /\ last'.out # "ok") =>
                       /\ UNCHANGED <<curr, finished, accepted, emitted>>
                       /\ \/ last'.arg > MaxSize
                          \/ (Len(finished) >= Cap /\ SumSz(curr, size) + last'.arg > MaxSize) ]_vars
AcceptedOnlyGrows == [][IsPrefix(accepted, accepted')]_vars

-----------------------------------------------------------------------------
Items(b, sz) == [i \in 1..Len(b) |-> <<b[i], sz[b[i]]>>]
Proj(c, f, sz) == [curr |-> Items(c, sz), finished |-> [i \in 1..Len(f) |-> Items(f[i], sz)], n |-> Len(sz)]
LogStep == PrintT(<<"T", ToJson([s |-> Proj(curr, finished, size), a |-> last', t |-> Proj(curr', finished', size'),
                                 handed |-> IF Len(emitted') > Len(emitted)
                                              THEN Items(emitted'[Len(emitted')], size') ELSE <<>>])>>)
=============================================================================
