CONSTANTS N = 6  W = 8  Dup = TRUE  Mode = "tree"  CheckedDecode = TRUE
INIT Init
NEXT Next
INVARIANTS RootIsMTH SizeIsOdd ProofIsPATH Complete Sound NoProofOutside NeverPanicsOnMutations Export
CHECK_DEADLOCK FALSE
