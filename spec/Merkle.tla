------------------------------- MODULE Merkle -------------------------------
(***************************************************************************)
(* astria-merkle (crates/astria-merkle/src/{lib,audit}.rs).                *)
(*                                                                         *)
(* Two descriptions of the same object are kept side by side:              *)
(*  - RFC 6962 section 2.1: MTH(D) and PATH(m, D), by recursive split at   *)
(*    the largest power of two smaller than n;                             *)
(*  - the crate's flat in-order array (Tree.nodes) with its index          *)
(*    arithmetic transcribed function by function over W-bit machine       *)
(*    words, where every checked_* operation that would overflow is a      *)
(*    reachable Panic value.                                               *)
(* Hashes are symbolic terms: a leaf hash is <<"L", x>> for the leaf datum *)
(* x, a node hash is <<"N", l, r>>.  Constructors are                      *)
(* injective, so TLC's verdicts about (in)equality of roots are exact for  *)
(* a collision-free hash; the harness evaluates the terms with SHA-256 and *)
(* the 0x00 / 0x01 domain separation of RFC 6962.                          *)
(***************************************************************************)
EXTENDS Integers, Sequences, FiniteSets, TLC, Json

CONSTANTS N,        \* maximal number of leaves pushed (tree behaviours)
          W,        \* machine word width of the index arithmetic
          Dup,      \* TRUE: leaf data drawn from {0,1} (duplicates); FALSE: leaf k has datum k
          Mode,     \* "tree" | "triples"
          CheckedDecode  \* TRUE: try_into_proof rejects overflowing indices, even sizes, over-long audit paths (repaired code)

Pow2(k) == 2 ^ k
WMax == Pow2(W) - 1            \* usize::MAX of the model
Panic == -1                    \* index-level result of an overflowing checked_* / failed assert
PanicT == <<"PANIC">>          \* the same at the level of hash terms
Leaf(x) == <<"L", x>>          \* symbolic SHA-256(0x00 || datum x)
Nd(l, r) == <<"N", l, r>>      \* symbolic SHA-256(0x01 || l || r)
X == <<"X">>                   \* a hash value occurring nowhere in a tree
Zero == <<"Z">>                \* the 32 zero bytes LeafBuilder::drop appends before fixing up
Empty == <<"E">>               \* SHA-256("") : root of the empty tree

-----------------------------------------------------------------------------
(* RFC 6962 *)
RECURSIVE LargestPow2Lt(_, _)
LargestPow2Lt(n, k) == IF 2 * k < n THEN LargestPow2Lt(n, 2 * k) ELSE k   \* call with k = 1, n >= 2

RECURSIVE MTH(_)
MTH(D) == IF Len(D) = 1 THEN Leaf(D[1])
          ELSE LET k == LargestPow2Lt(Len(D), 1)
               IN Nd(MTH(SubSeq(D, 1, k)), MTH(SubSeq(D, k + 1, Len(D))))

RECURSIVE PATH(_, _)     \* m is 0-based
PATH(m, D) == IF Len(D) = 1 THEN <<>>
              ELSE LET k == LargestPow2Lt(Len(D), 1)
                   IN IF m < k
                        THEN PATH(m, SubSeq(D, 1, k)) \o <<MTH(SubSeq(D, k + 1, Len(D)))>>
                        ELSE PATH(m - k, SubSeq(D, k + 1, Len(D))) \o <<MTH(SubSeq(D, 1, k))>>

\* RFC 6962 audit-path length of leaf m in a tree of n leaves
RECURSIVE PathLen(_, _)
PathLen(m, n) == IF n = 1 THEN 0
                 ELSE LET k == LargestPow2Lt(n, 1)
                      IN IF m < k THEN 1 + PathLen(m, k) ELSE 1 + PathLen(m - k, n - k)

-----------------------------------------------------------------------------
(* W-bit machine words *)
RECURSIVE BitAnd(_, _, _)
BitAnd(x, y, w) == IF w = 0 THEN 0 ELSE (x % 2) * (y % 2) + 2 * BitAnd(x \div 2, y \div 2, w - 1)
And(x, y) == BitAnd(x, y, W)
Not(x) == WMax - x
Or(x, y) == x + y - And(x, y)
Shl1(x) == (2 * x) % Pow2(W)          \* `<<` discards the bits shifted out
Shr1(x) == x \div 2

CheckedAdd(x, y) == IF x = Panic \/ y = Panic THEN Panic ELSE IF x + y > WMax THEN Panic ELSE x + y
CheckedSub(x, y) == IF x = Panic \/ y = Panic THEN Panic ELSE IF x < y THEN Panic ELSE x - y
CheckedMul2(x)   == IF x = Panic THEN Panic ELSE IF 2 * x > WMax THEN Panic ELSE 2 * x

\* lib.rs: leaf_index_to_tree_index
LeafToTree(j) == CheckedMul2(j)

\* lib.rs: last_set_bit:  x - ((x - 1) & x)
LastSetBit(x) == IF x = Panic THEN Panic
                 ELSE LET m == CheckedSub(x, 1)
                      IN IF m = Panic THEN Panic ELSE CheckedSub(x, And(m, x))
\* lib.rs: last_zero_bit
LastZeroBit(x) == LastSetBit(CheckedAdd(x, 1))

\* lib.rs: perfect_parent:  (zero | i) & !(zero << 1)
PerfectParent(i) == LET z == LastZeroBit(i)
                    IN IF z = Panic THEN Panic ELSE And(Or(z, i), Not(Shl1(z)))

IsBranch(i) == i % 2 = 1
\* lib.rs: perfect_left_child / perfect_right_child
PerfectLeftChild(p) == IF ~IsBranch(p) THEN Panic
                       ELSE LET z == LastZeroBit(p) IN IF z = Panic THEN Panic ELSE And(p, Not(Shr1(z)))
PerfectRightChild(p) == IF ~IsBranch(p) THEN Panic
                        ELSE LET z == LastZeroBit(p)
                             IN IF z = Panic THEN Panic ELSE And(Or(p, z), Not(Shr1(z)))

\* usize::next_power_of_two (debug builds panic on overflow)
RECURSIVE NextPow2From(_, _)
NextPow2From(x, k) == IF k >= x THEN k ELSE NextPow2From(x, 2 * k)
NextPow2(x) == IF x <= 1 THEN 1 ELSE LET p == NextPow2From(x, 1) IN IF p > WMax THEN Panic ELSE p

IsPerfect(n) == n = 1 \/ NextPow2(n) = (n + 1) % Pow2(W)
\* lib.rs: complete_root:  perfect_root(n.wrapping_add(1).next_power_of_two().saturating_sub(1))
CompleteRoot(n) == LET p == NextPow2((n + 1) % Pow2(W))
                   IN IF p = Panic THEN Panic
                      ELSE LET q == IF p = 0 THEN 0 ELSE p - 1
                           IN IF IsPerfect(q) THEN Shr1(q) ELSE Panic

\* lib.rs: complete_parent: loop { i = perfect_parent(i); if i < n break }
RECURSIVE CompleteParent(_, _)
CompleteParent(i, n) == LET p == PerfectParent(i)
                        IN IF p = Panic THEN Panic ELSE IF p < n THEN p ELSE CompleteParent(p, n)

CompleteLeftChild(p) == PerfectLeftChild(p)
\* lib.rs: complete_right_child
CompleteRightChild(i, n) ==
  IF ~IsBranch(i) \/ ~(i < n) THEN Panic
  ELSE LET rc == PerfectRightChild(i)
       IN IF rc = Panic THEN Panic
          ELSE IF rc < n THEN rc
          ELSE LET i1 == CheckedAdd(i, 1)
                   r == IF i1 = Panic THEN Panic
                        ELSE LET d == CheckedSub(n, i1) IN IF d = Panic THEN Panic ELSE CompleteRoot(d)
               IN CheckedAdd(i1, r)

\* lib.rs: complete_parent_and_sibling
ParentAndSibling(i, n) ==
  IF ~(i < n) THEN <<Panic, Panic>>
  ELSE LET p == CompleteParent(i, n)
       IN IF p = Panic THEN <<Panic, Panic>>
          ELSE LET s == IF i < p THEN CompleteRightChild(p, n) ELSE CompleteLeftChild(p)
               IN IF s = Panic THEN <<Panic, Panic>> ELSE <<p, s>>

-----------------------------------------------------------------------------
(* The flat tree.  nodes is a sequence; tree index i lives at nodes[i + 1].  *)
Node(nodes, i) == nodes[i + 1]

\* LeafBuilder::drop: append the leaf and recompute the branch nodes on its path to the root
RECURSIVE FixUp(_, _, _, _)
FixUp(nodes, idx, size, root) ==
  LET p == CompleteParent(idx, size)
      l == CompleteLeftChild(p)
      r == CompleteRightChild(p, size)
      nn == [nodes EXCEPT ![p + 1] = Nd(Node(nodes, l), Node(nodes, r))]
  IN IF p = root THEN nn ELSE FixUp(nn, p, size, root)

PushLeaf(nodes, h) ==
  IF nodes = <<>> THEN <<h>>
  ELSE LET ext == nodes \o <<Zero, h>>     \* two new slots: branch placeholder, leaf
           size == Len(ext)
       IN FixUp(ext, size - 1, size, CompleteRoot(size))

FlatRoot(nodes) == IF nodes = <<>> THEN Empty ELSE Node(nodes, CompleteRoot(Len(nodes)))

\* Tree::construct_proof
RECURSIVE ProofWalk(_, _, _, _)
ProofWalk(nodes, ti, root, acc) ==
  IF ti = root THEN acc
  ELSE LET ps == ParentAndSibling(ti, Len(nodes))
       IN ProofWalk(nodes, ps[1], root, acc \o <<Node(nodes, ps[2])>>)
ConstructProof(nodes, leafIdx) ==
  IF nodes = <<>> \/ ~(2 * leafIdx < Len(nodes)) THEN <<"NONE">>
  ELSE ProofWalk(nodes, 2 * leafIdx, CompleteRoot(Len(nodes)), <<>>)

\* UncheckedProof::try_into_proof.  pathLen = number of 32-byte segments.
\* Result: "zero_size" | "outside" | "bad_len" | "ok" | Panic
TreeWalkLen(leafIdx, size) == PathLen(leafIdx, (size + 1) \div 2)
Decode(pathLen, leafIdx, size) ==
  IF size = 0 THEN "zero_size"
  ELSE IF CheckedDecode
    THEN (IF 2 * leafIdx > WMax \/ ~(2 * leafIdx < size) THEN "outside"
          ELSE IF size % 2 = 0 \/ pathLen > TreeWalkLen(leafIdx, size) THEN "bad_len"
          ELSE "ok")
    ELSE LET ti == LeafToTree(leafIdx)
         IN IF ti = Panic THEN "panic" ELSE IF ~(ti < size) THEN "outside" ELSE "ok"

\* Proof::reconstruct_root_with_leaf_hash
RECURSIVE Walk(_, _, _, _)
Walk(path, i, size, acc) ==
  IF path = <<>> THEN acc
  ELSE LET p == CompleteParent(i, size)
       IN IF p = Panic THEN PanicT
          ELSE Walk(Tail(path), p, size, IF p > i THEN Nd(acc, Head(path)) ELSE Nd(Head(path), acc))
Reconstruct(path, leafIdx, size, leafHash) ==
  LET ti == LeafToTree(leafIdx) IN IF ti = Panic THEN PanicT ELSE Walk(path, ti, size, leafHash)

\* Proof::verify after decoding: "reject" (decode error) | "true" | "false" | "panic"
Verify(path, leafIdx, size, leafHash, root) ==
  LET d == Decode(Len(path), leafIdx, size)
  IN IF d = "panic" THEN "panic"
     ELSE IF d # "ok" THEN "reject"
     ELSE LET r == Reconstruct(path, leafIdx, size, leafHash)
          IN IF r = PanicT THEN "panic" ELSE IF r = root THEN "true" ELSE "false"

-----------------------------------------------------------------------------
(* Behaviours.  Mode "tree": push up to N leaves.  Mode "triples": one state per   *)
(* (path length, leaf index, tree size) triple of the W-bit model.                *)
VARIABLES leaves,   \* sequence of leaf data pushed so far
          nodes,    \* flat array of hash terms
          triple    \* <<pathLen, leafIdx, size>> in mode "triples", <<>> otherwise

vars == <<leaves, nodes, triple>>

Choices(k) == IF Dup THEN {0, 1} ELSE {k}

Init == /\ leaves = <<>> /\ nodes = <<>>
        /\ IF Mode = "tree" THEN triple = <<>>
           ELSE triple \in (0..(W + 2)) \X (0..WMax) \X (0..WMax)

Push(d) == /\ Mode = "tree" /\ Len(leaves) < N
           /\ leaves' = Append(leaves, d)
           /\ nodes' = PushLeaf(nodes, Leaf(d))
           /\ UNCHANGED triple

Next == \E d \in Choices(Len(leaves)) : Push(d)
Spec == Init /\ [][Next]_vars

n == Len(leaves)

-----------------------------------------------------------------------------
(* Properties of tree behaviours *)
RootIsMTH == Mode = "tree" /\ n > 0 => FlatRoot(nodes) = MTH(leaves)
SizeIsOdd == Mode = "tree" /\ n > 0 => Len(nodes) = 2 * n - 1
ProofIsPATH == Mode = "tree" =>
  \A i \in 0..(n - 1) : ConstructProof(nodes, i) = PATH(i, leaves)
Complete == Mode = "tree" =>
  \A i \in 0..(n - 1) : Verify(PATH(i, leaves), i, Len(nodes), Leaf(leaves[i + 1]), FlatRoot(nodes)) = "true"
\* changing the leaf, any path element or the root makes verification fail
Sound == Mode = "tree" =>
  \A i \in 0..(n - 1) :
    LET p == PATH(i, leaves) r == FlatRoot(nodes) sz == Len(nodes)
    IN /\ Verify(p, i, sz, X, r) = "false"
       /\ Verify(p, i, sz, Leaf(leaves[i + 1]), X) = "false"
       /\ \A j \in 1..Len(p) : Verify([p EXCEPT ![j] = X], i, sz, Leaf(leaves[i + 1]), r) = "false"
\* out-of-tree leaf index gives no proof
NoProofOutside == Mode = "tree" => ConstructProof(nodes, n) = <<"NONE">>

\* The index/size mutations of every proof: expected verdict from the model (exact check of the
\* implementation's index arithmetic; with CheckedDecode most of them are decode errors).
IdxMutations(i) == (0..n) \ {i}
SizeMutations == {s \in ((0..3) \cup ((Len(nodes) - 2)..(Len(nodes) + 3))) : s >= 0 /\ s # Len(nodes) /\ s <= WMax}
NeverPanicsOnMutations == Mode = "tree" =>
  \A i \in 0..(n - 1) :
    LET p == PATH(i, leaves) r == FlatRoot(nodes) sz == Len(nodes)
    IN /\ \A i2 \in IdxMutations(i) : Verify(p, i2, sz, Leaf(leaves[i + 1]), r) # "panic"
       /\ \A s2 \in SizeMutations : Verify(p, i, s2, Leaf(leaves[i + 1]), r) # "panic"
       /\ Verify(p \o <<X>>, i, sz, Leaf(leaves[i + 1]), r) # "panic"
       /\ (p # <<>> => Verify(Tail(p), i, sz, Leaf(leaves[i + 1]), r) # "panic")

(* Totality over the W-bit model: whatever try_into_proof accepts, verification terminates
   without panicking (the path content is irrelevant for termination). *)
TripleVerdict(t) == Verify([k \in 1..t[1] |-> X], t[2], t[3], X, <<"R">>)
Total == Mode = "triples" => TripleVerdict(triple) # "panic"

-----------------------------------------------------------------------------
(* Export for the S->I replay: one JSON record per state. *)
VStr(v) == v

TreeRecord ==
  [kind |-> "tree", leaves |-> leaves, size |-> Len(nodes), root |-> FlatRoot(nodes),
   proofs |-> [i \in 1..n |-> PATH(i - 1, leaves)],
   muts |-> [i \in 1..n |->
      LET p == PATH(i - 1, leaves) r == FlatRoot(nodes) sz == Len(nodes) lf == Leaf(leaves[i])
      IN [idx |-> {<<i2, VStr(Verify(p, i2, sz, lf, r))>> : i2 \in IdxMutations(i - 1)},
          size |-> {<<s2, VStr(Verify(p, i - 1, s2, lf, r))>> : s2 \in SizeMutations},
          longer |-> VStr(Verify(p \o <<X>>, i - 1, sz, lf, r)),
          shorter |-> IF p = <<>> THEN "none" ELSE VStr(Verify(Tail(p), i - 1, sz, lf, r))]]]

\* A W-bit word as a position relative to 0, 2^(W-1) or 2^W - 1, so that the harness can
\* re-instantiate it at W = 64.
Half == Pow2(W - 1)
Win == Pow2(W - 3)
Sym(v) == IF v < 2 * Win THEN <<"lo", v>>
          ELSE IF v >= Half - Win /\ v < Half THEN <<"half-", Half - v>>
          ELSE IF v >= Half /\ v < Half + Win THEN <<"half+", v - Half>>
          ELSE IF v > WMax - Win THEN <<"top-", WMax - v>>
          ELSE <<"mid", v>>
TripleRecord == [kind |-> "triple", len |-> triple[1], idx |-> Sym(triple[2]), size |-> Sym(triple[3]),
                 decode |-> Decode(triple[1], triple[2], triple[3]),
                 verdict |-> VStr(TripleVerdict(triple))]

Export == IF Mode = "tree" THEN (n > 0 => PrintT(<<"T", ToJson(TreeRecord)>>))
          ELSE (Sym(triple[2])[1] # "mid" /\ Sym(triple[3])[1] # "mid" => PrintT(<<"T", ToJson(TripleRecord)>>))
=============================================================================
