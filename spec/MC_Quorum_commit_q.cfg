CONSTANTS NV = 3  MaxPower = 3  SlotKinds = {"absent","nil","valid","forged","other","missing"}  Extras = {"none","dup","unknown"}
  QuorumRule = "exact"  CountDuplicates = FALSE  DropOnMismatch = TRUE  PowerCap = 1000000  Part = "commit"
INIT Init
NEXT Next
INVARIANTS AcceptOnlyWithQuorum AcceptWellFormedWithQuorum NeverExceedsTotal FirmOnlyIfCommitted DataOnlyIfBound Export
CHECK_DEADLOCK FALSE
