----------------------------- MODULE Conductor -----------------------------
(***************************************************************************)
(* The conductor's executor: executor/mod.rs (run_event_loop's biased      *)
(* select, is_spread_too_large, execute_soft, execute_firm,                *)
(* should_execute_firm_block, update_commitment_state) and state.rs        *)
(* (next expected soft / firm sequencer heights).                          *)
(*                                                                         *)
(* Sequencer height h maps to rollup block number h (the harness uses      *)
(* sequencer_start_block_height 10 and rollup_start_block_number 1 and     *)
(* translates).  Number 0 is the block both commitments name at start.     *)
(* The two readers are the environment: they deliver blocks in order, and  *)
(* up to MaxInject arbitrary ones (stale, duplicate, ahead).               *)
(* The rollup sees RPCs: exec(h, parent) and commit(soft, firm).           *)
(***************************************************************************)
EXTENDS Naturals, Sequences, FiniteSets, TLC, Json

CONSTANTS MaxH, Mode, MaxInject, Spread,
          MaxRestart,   \* restarts of the conductor (a new session on the same rollup)
          Batched,      \* TRUE: deliveries happen only while the event loop is idle ("load"), then the loop runs until it
                        \* has nothing left to do ("run") -- the shape of behaviour the harness can reproduce on the real
                        \* run_event_loop; FALSE: deliveries and loop iterations interleave freely
          MaxPhases

H == 1..MaxH
VARIABLES soft, firm,        \* committed rollup numbers
          softQ, firmQ,      \* channel contents (sequences of heights)
          softNext, firmNext,\* what the (well-behaved) readers send next
          pending,           \* blocks_pending_finalization: heights executed soft, awaiting firm
          rpc,               \* log of RPCs: <<"exec", h, parent>> / <<"commit", soft, firm>>
          dead,              \* the executor exited with an error
          injected, last,
          restarts, phase, nphase, hist,
          base                \* the height executed last before this conductor's first session (0, or 1 when the session starts
                              \* with a soft commitment ahead of the firm one: the rollup was driven with soft blocks before)
vars == <<soft, firm, softQ, firmQ, softNext, firmNext, pending, rpc, dead, injected, last, restarts, phase, nphase, hist, base>>
View == <<soft, firm, softQ, firmQ, softNext, firmNext, pending, dead, injected, restarts, phase, nphase, base>>
ctl == <<restarts, phase, nphase>>

WithSoft == Mode \in {"SoftOnly", "SoftAndFirm"}
WithFirm == Mode \in {"FirmOnly", "SoftAndFirm"}

\* execution-session start offsets: the commitments the rollup reports when the session is created (the cache is empty)
Init == /\ soft \in (IF Batched THEN {0} ELSE {0, 1}) /\ firm = 0 /\ softQ = <<>> /\ firmQ = <<>> /\ softNext = soft + 1 /\ firmNext = 1
        \* in firm-only mode what counts is the firm chain: soft blocks above it are re-executed as firm ones
        /\ base = (IF Mode = "FirmOnly" THEN 0 ELSE soft)
        /\ pending = {} /\ rpc = <<>> /\ dead = FALSE /\ injected = 0 /\ last = [op |-> "init"]
        /\ restarts = 0 /\ phase = (IF Batched THEN "load" ELSE "run") /\ nphase = 0 /\ hist = <<>>

EnvOK == (~Batched \/ phase = "load") /\ nphase < MaxPhases
ExecOK == ~Batched \/ phase = "run"
H2(op, h) == IF Batched THEN Append(hist, [op |-> op, h |-> h]) ELSE hist

\* ---- environment
ReaderSoft == /\ EnvOK /\ hist' = H2("soft", softNext) /\ UNCHANGED ctl
              /\ WithSoft /\ ~dead /\ softNext <= MaxH /\ Len(softQ) < 2
              /\ softQ' = Append(softQ, softNext) /\ softNext' = softNext + 1
              /\ last' = [op |-> "env"]
              /\ UNCHANGED <<soft, firm, firmQ, firmNext, pending, rpc, dead, injected>>
ReaderFirm == /\ EnvOK /\ hist' = H2("firm", firmNext) /\ UNCHANGED ctl
              /\ WithFirm /\ ~dead /\ firmNext <= MaxH /\ Len(firmQ) < 2
              /\ firmQ' = Append(firmQ, firmNext) /\ firmNext' = firmNext + 1
              /\ last' = [op |-> "env"]
              /\ UNCHANGED <<soft, firm, softQ, softNext, pending, rpc, dead, injected>>
InjectSoft(h) == /\ EnvOK /\ hist' = H2("soft", h) /\ UNCHANGED ctl
                 /\ WithSoft /\ ~dead /\ injected < MaxInject /\ Len(softQ) < 2
                 /\ softQ' = Append(softQ, h) /\ injected' = injected + 1 /\ last' = [op |-> "env"]
                 /\ UNCHANGED <<soft, firm, firmQ, softNext, firmNext, pending, rpc, dead>>
InjectFirm(h) == /\ EnvOK /\ hist' = H2("firm", h) /\ UNCHANGED ctl
                 /\ WithFirm /\ ~dead /\ injected < MaxInject /\ Len(firmQ) < 2
                 /\ firmQ' = Append(firmQ, h) /\ injected' = injected + 1 /\ last' = [op |-> "env"]
                 /\ UNCHANGED <<soft, firm, softQ, softNext, firmNext, pending, rpc, dead>>

\* is_spread_too_large: next_soft - next_firm >= celestia_search_height_max_look_ahead
SpreadTooLarge(s, f) == WithFirm /\ ((s + 1) - (f + 1) >= Spread)

\* execute_firm
ExecFirm ==
  /\ ExecOK /\ UNCHANGED <<ctl, hist>>
  /\ ~dead /\ firmQ # <<>>
  /\ LET h == Head(firmQ) IN
     /\ firmQ' = Tail(firmQ)
     /\ IF h # firm + 1
          THEN /\ dead' = TRUE /\ UNCHANGED <<soft, firm, pending, rpc>>     \* ensure!(height == expected)
               /\ last' = [op |-> "firm", h |-> h, out |-> "error", new |-> <<>>]
          ELSE IF (Mode = "FirmOnly") \/ (Mode = "SoftAndFirm" /\ firm + 1 = soft + 1)
            THEN \* should_execute_firm_block: execute on top of firm, Update::ToSame
                 /\ rpc' = rpc \o << <<"exec", h, firm>>, <<"commit", h, h>> >>
                 /\ soft' = h /\ firm' = h /\ UNCHANGED <<pending, dead>>
                 /\ last' = [op |-> "firm", h |-> h, out |-> "ok", new |-> << <<"exec", h, firm>>, <<"commit", h, h>> >>]
            ELSE \* already executed as soft: take it from the pending cache, or ask the rollup for it
                 \* (after a restart the cache is empty: GetExecutedBlockMetadata)
                 LET new == (IF h \in pending THEN <<>> ELSE << <<"get", h, 0>> >>) \o << <<"commit", soft, h>> >> IN
                 /\ rpc' = rpc \o new
                 /\ firm' = h /\ pending' = pending \ {h} /\ UNCHANGED <<soft, dead>>
                 /\ last' = [op |-> "firm", h |-> h, out |-> "ok", new |-> new]
  /\ UNCHANGED <<softQ, softNext, firmNext, injected>>

\* execute_soft
ExecSoft ==
  /\ ExecOK /\ UNCHANGED <<ctl, hist>>
  /\ ~dead /\ softQ # <<>> /\ firmQ = <<>>        \* biased select: the firm channel is polled first
  /\ ~SpreadTooLarge(soft, firm)
  /\ LET h == Head(softQ) IN
     /\ softQ' = Tail(softQ)
     /\ IF h < soft + 1
          THEN /\ UNCHANGED <<soft, firm, pending, rpc, dead>>          \* stale: dropped
               /\ last' = [op |-> "soft", h |-> h, out |-> "dropped", new |-> <<>>]
        ELSE IF h > soft + 1
          THEN /\ dead' = TRUE /\ UNCHANGED <<soft, firm, pending, rpc>>
               /\ last' = [op |-> "soft", h |-> h, out |-> "error", new |-> <<>>]
        ELSE /\ rpc' = rpc \o << <<"exec", h, soft>>, <<"commit", h, firm>> >>
             /\ soft' = h /\ pending' = pending \cup {h} /\ UNCHANGED <<firm, dead>>
             /\ last' = [op |-> "soft", h |-> h, out |-> "ok", new |-> << <<"exec", h, soft>>, <<"commit", h, firm>> >>]
  /\ UNCHANGED <<firmQ, softNext, firmNext, injected>>

\* the conductor is restarted (by its operator, or by its own restart logic after an error): a new execution session on
\* the same rollup; the channels and the cache of soft-executed blocks are gone, the readers resume after the commitments
Restart == /\ EnvOK /\ restarts < MaxRestart
           /\ restarts' = restarts + 1 /\ UNCHANGED <<phase, nphase>> /\ hist' = H2("restart", 0)
           /\ softQ' = <<>> /\ firmQ' = <<>> /\ softNext' = soft + 1 /\ firmNext' = firm + 1
           /\ pending' = {} /\ dead' = FALSE /\ last' = [op |-> "env"]
           /\ UNCHANGED <<soft, firm, rpc, injected>>

ExecEnabled == ~dead /\ (firmQ # <<>> \/ (softQ # <<>> /\ ~SpreadTooLarge(soft, firm)))
Go == /\ Batched /\ phase = "load" /\ nphase < MaxPhases /\ phase' = "run" /\ hist' = H2("go", 0)
      /\ last' = [op |-> "env"]
      /\ UNCHANGED <<soft, firm, softQ, firmQ, softNext, firmNext, pending, rpc, dead, injected, restarts, nphase>>
Settle == /\ Batched /\ phase = "run" /\ ~ExecEnabled /\ phase' = "load" /\ nphase' = nphase + 1
          /\ hist' = Append(hist, [op |-> "settle", h |-> 0, soft |-> soft, firm |-> firm, pending |-> pending, dead |-> dead,
                                    rpc |-> rpc, softLeft |-> Len(softQ), firmLeft |-> Len(firmQ)])
          /\ last' = [op |-> "env"]
          /\ UNCHANGED <<soft, firm, softQ, firmQ, softNext, firmNext, pending, rpc, dead, injected, restarts>>

Next == /\ UNCHANGED base
        /\ \/ ReaderSoft \/ ReaderFirm \/ ExecFirm \/ ExecSoft \/ Restart \/ Go \/ Settle
           \/ \E h \in H : InjectSoft(h) \/ InjectFirm(h)
Spec == Init /\ [][Next]_vars

-----------------------------------------------------------------------------
(* C10, over the RPC log the rollup sees *)
Execs == SelectSeq(rpc, LAMBDA r : r[1] = "exec")
Commits == SelectSeq(rpc, LAMBDA r : r[1] = "commit")
\* exactly one ExecuteBlock per height, in increasing order, each on top of the previous one
OncePerHeightInOrder == \A i \in 1..Len(Execs) : Execs[i][2] = base + i
ParentChain == \A i \in 1..Len(Execs) : Execs[i][3] = base + i - 1
\* commitments never decrease, firm never exceeds soft, firm only names executed heights
CommitMonotone == \A i \in 1..(Len(Commits) - 1) : Commits[i + 1][2] >= Commits[i][2] /\ Commits[i + 1][3] >= Commits[i][3]
FirmLeSoft == \A i \in 1..Len(Commits) : Commits[i][3] <= Commits[i][2]
Top == (IF Mode = "FirmOnly" THEN base ELSE base) + Len(Execs)
FirmNamesExecuted == \A i \in 1..Len(Commits) : Commits[i][3] <= Top /\ Commits[i][2] <= (IF Mode = "FirmOnly" /\ soft > Top THEN soft ELSE Top)
\* the cache of soft-executed blocks holds only blocks still awaiting their firm commitment
PendingWithin == pending \subseteq {h \in H : firm < h /\ h <= soft}
\* a stale or ahead delivery never reaches the rollup
NeverExecutesOutOfOrder == [][(last'.op \in {"soft", "firm"} /\ last'.out # "ok") => rpc' = rpc]_vars

-----------------------------------------------------------------------------
Proj(s, f, p, d) == [soft |-> s, firm |-> f, pending |-> p, dead |-> d, spread |-> SpreadTooLarge(s, f)]
LogStep == (last'.op \in {"soft", "firm"}) =>
             PrintT(<<"T", ToJson([s |-> Proj(soft, firm, pending, dead), a |-> last', t |-> Proj(soft', firm', pending', dead')])>>)
Behaviour == (Batched /\ phase' = "load" /\ phase = "run" /\ (nphase' = MaxPhases \/ dead)) =>
                PrintT(<<"B", ToJson(hist')>>)
LogAll == LogStep /\ Behaviour
=============================================================================
