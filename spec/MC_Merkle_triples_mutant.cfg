CONSTANTS N = 0  W = 6  Dup = FALSE  Mode = "triples"  CheckedDecode = FALSE
INIT Init
NEXT Next
INVARIANTS Total Export
CHECK_DEADLOCK FALSE
