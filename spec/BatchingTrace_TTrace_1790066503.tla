---- MODULE BatchingTrace_TTrace_1790066503 ----
EXTENDS BatchingTrace, Sequences, TLCExt, Toolbox, Naturals, TLC

_expression ==
    LET BatchingTrace_TEExpression == INSTANCE BatchingTrace_TEExpression
    IN BatchingTrace_TEExpression!expression
----

_trace ==
    LET BatchingTrace_TETrace == INSTANCE BatchingTrace_TETrace
    IN BatchingTrace_TETrace!trace
----

_inv ==
    ~(
        TLCGet("level") = Len(_TETrace)
        /\
        arrived = (3)
        /\
        size = (<<0, 0, 0>>)
        /\
        subs = (<<<<1, 2>>, <<3>>>>)
        /\
        pending = (0)
        /\
        batch = (<<>>)
        /\
        failed = (FALSE)
        /\
        l = (3)
        /\
        inflight = (TRUE)
    )
----

_init ==
    /\ l = _TETrace[1].l
    /\ pending = _TETrace[1].pending
    /\ inflight = _TETrace[1].inflight
    /\ size = _TETrace[1].size
    /\ arrived = _TETrace[1].arrived
    /\ failed = _TETrace[1].failed
    /\ subs = _TETrace[1].subs
    /\ batch = _TETrace[1].batch
----

_next ==
    /\ \E i,j \in DOMAIN _TETrace:
        /\ \/ /\ j = i + 1
              /\ i = TLCGet("level")
        /\ l  = _TETrace[i].l
        /\ l' = _TETrace[j].l
        /\ pending  = _TETrace[i].pending
        /\ pending' = _TETrace[j].pending
        /\ inflight  = _TETrace[i].inflight
        /\ inflight' = _TETrace[j].inflight
        /\ size  = _TETrace[i].size
        /\ size' = _TETrace[j].size
        /\ arrived  = _TETrace[i].arrived
        /\ arrived' = _TETrace[j].arrived
        /\ failed  = _TETrace[i].failed
        /\ failed' = _TETrace[j].failed
        /\ subs  = _TETrace[i].subs
        /\ subs' = _TETrace[j].subs
        /\ batch  = _TETrace[i].batch
        /\ batch' = _TETrace[j].batch

\* Uncomment the ASSUME below to write the states of the error trace
\* to the given file in Json format. Note that you can pass any tuple
\* to `JsonSerialize`. For example, a sub-sequence of _TETrace.
    \* ASSUME
    \*     LET J == INSTANCE Json
    \*         IN J!JsonSerialize("BatchingTrace_TTrace_1790066503.json", _TETrace)

=============================================================================

 Note that you can extract this module `BatchingTrace_TEExpression`
  to a dedicated file to reuse `expression` (the module in the 
  dedicated `BatchingTrace_TEExpression.tla` file takes precedence 
  over the module `BatchingTrace_TEExpression` below).

---- MODULE BatchingTrace_TEExpression ----
EXTENDS BatchingTrace, Sequences, TLCExt, Toolbox, Naturals, TLC

expression == 
    [
        \* To hide variables of the `BatchingTrace` spec from the error trace,
        \* remove the variables below.  The trace will be written in the order
        \* of the fields of this record.
        l |-> l
        ,pending |-> pending
        ,inflight |-> inflight
        ,size |-> size
        ,arrived |-> arrived
        ,failed |-> failed
        ,subs |-> subs
        ,batch |-> batch
        
        \* Put additional constant-, state-, and action-level expressions here:
        \* ,_stateNumber |-> _TEPosition
        \* ,_lUnchanged |-> l = l'
        
        \* Format the `l` variable as Json value.
        \* ,_lJson |->
        \*     LET J == INSTANCE Json
        \*     IN J!ToJson(l)
        
        \* Lastly, you may build expressions over arbitrary sets of states by
        \* leveraging the _TETrace operator.  For example, this is how to
        \* count the number of times a spec variable changed up to the current
        \* state in the trace.
        \* ,_lModCount |->
        \*     LET F[s \in DOMAIN _TETrace] ==
        \*         IF s = 1 THEN 0
        \*         ELSE IF _TETrace[s].l # _TETrace[s-1].l
        \*             THEN 1 + F[s-1] ELSE F[s-1]
        \*     IN F[_TEPosition - 1]
    ]

=============================================================================



Parsing and semantic processing can take forever if the trace below is long.
 In this case, it is advised to uncomment the module below to deserialize the
 trace from a generated binary file.

\*
\*---- MODULE BatchingTrace_TETrace ----
\*EXTENDS BatchingTrace, IOUtils, TLC
\*
\*trace == IODeserialize("BatchingTrace_TTrace_1790066503.bin", TRUE)
\*
\*=============================================================================
\*

---- MODULE BatchingTrace_TETrace ----
EXTENDS BatchingTrace, TLC

trace == 
    <<
    ([arrived |-> 0,size |-> <<0, 0, 0>>,subs |-> <<>>,pending |-> 0,batch |-> <<>>,failed |-> FALSE,l |-> 1,inflight |-> FALSE]),
    ([arrived |-> 1,size |-> <<0, 0, 0>>,subs |-> <<>>,pending |-> 0,batch |-> <<1>>,failed |-> FALSE,l |-> 1,inflight |-> FALSE]),
    ([arrived |-> 2,size |-> <<0, 0, 0>>,subs |-> <<>>,pending |-> 0,batch |-> <<1, 2>>,failed |-> FALSE,l |-> 1,inflight |-> FALSE]),
    ([arrived |-> 2,size |-> <<0, 0, 0>>,subs |-> <<<<1, 2>>>>,pending |-> 0,batch |-> <<>>,failed |-> FALSE,l |-> 2,inflight |-> TRUE]),
    ([arrived |-> 3,size |-> <<0, 0, 0>>,subs |-> <<<<1, 2>>>>,pending |-> 0,batch |-> <<3>>,failed |-> FALSE,l |-> 2,inflight |-> TRUE]),
    ([arrived |-> 3,size |-> <<0, 0, 0>>,subs |-> <<<<1, 2>>>>,pending |-> 0,batch |-> <<3>>,failed |-> FALSE,l |-> 2,inflight |-> FALSE]),
    ([arrived |-> 3,size |-> <<0, 0, 0>>,subs |-> <<<<1, 2>>, <<3>>>>,pending |-> 0,batch |-> <<>>,failed |-> FALSE,l |-> 3,inflight |-> TRUE])
    >>
----


=============================================================================

---- CONFIG BatchingTrace_TTrace_1790066503 ----
CONSTANTS
    MaxBytes = 0
    Sizes = { 0 }
    Log <- TraceLog
    MaxH <- TraceMaxH

INVARIANT
    _inv

CHECK_DEADLOCK
    \* CHECK_DEADLOCK off because of PROPERTY or INVARIANT above.
    FALSE

INIT
    _init

NEXT
    _next

CONSTANT
    _TETrace <- _trace

ALIAS
    _expression
=============================================================================
\* Generated on Tue Sep 22 08:41:52 UTC 2026