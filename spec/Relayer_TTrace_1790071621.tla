---- MODULE Relayer_TTrace_1790071621 ----
EXTENDS Sequences, TLCExt, Relayer, Toolbox, Naturals, TLC

_expression ==
    LET Relayer_TEExpression == INSTANCE Relayer_TEExpression
    IN Relayer_TEExpression!expression
----

_trace ==
    LET Relayer_TETrace == INSTANCE Relayer_TETrace
    IN Relayer_TETrace!trace
----

_inv ==
    ~(
        TLCGet("level") = Len(_TETrace)
        /\
        mode = ("confirmFailed")
        /\
        cur = ([tx |-> 2, lo |-> 2, hi |-> 2])
        /\
        file = ([k |-> "prepared", last |-> 0, h |-> 2, tx |-> 2])
        /\
        ntx = (2)
        /\
        last = (0)
        /\
        ncrash = (1)
        /\
        skipTo = (1)
        /\
        up = (TRUE)
        /\
        cel = (<<[lo |-> 1, hi |-> 1, st |-> "pending"], [lo |-> 2, hi |-> 2, st |-> "confirmed"], [lo |-> 0, hi |-> 0, st |-> "none"]>>)
    )
----

_init ==
    /\ cur = _TETrace[1].cur
    /\ mode = _TETrace[1].mode
    /\ file = _TETrace[1].file
    /\ last = _TETrace[1].last
    /\ ntx = _TETrace[1].ntx
    /\ up = _TETrace[1].up
    /\ ncrash = _TETrace[1].ncrash
    /\ cel = _TETrace[1].cel
    /\ skipTo = _TETrace[1].skipTo
----

_next ==
    /\ \E i,j \in DOMAIN _TETrace:
        /\ \/ /\ j = i + 1
              /\ i = TLCGet("level")
        /\ cur  = _TETrace[i].cur
        /\ cur' = _TETrace[j].cur
        /\ mode  = _TETrace[i].mode
        /\ mode' = _TETrace[j].mode
        /\ file  = _TETrace[i].file
        /\ file' = _TETrace[j].file
        /\ last  = _TETrace[i].last
        /\ last' = _TETrace[j].last
        /\ ntx  = _TETrace[i].ntx
        /\ ntx' = _TETrace[j].ntx
        /\ up  = _TETrace[i].up
        /\ up' = _TETrace[j].up
        /\ ncrash  = _TETrace[i].ncrash
        /\ ncrash' = _TETrace[j].ncrash
        /\ cel  = _TETrace[i].cel
        /\ cel' = _TETrace[j].cel
        /\ skipTo  = _TETrace[i].skipTo
        /\ skipTo' = _TETrace[j].skipTo

\* Uncomment the ASSUME below to write the states of the error trace
\* to the given file in Json format. Note that you can pass any tuple
\* to `JsonSerialize`. For example, a sub-sequence of _TETrace.
    \* ASSUME
    \*     LET J == INSTANCE Json
    \*         IN J!JsonSerialize("Relayer_TTrace_1790071621.json", _TETrace)

=============================================================================

 Note that you can extract this module `Relayer_TEExpression`
  to a dedicated file to reuse `expression` (the module in the 
  dedicated `Relayer_TEExpression.tla` file takes precedence 
  over the module `Relayer_TEExpression` below).

---- MODULE Relayer_TEExpression ----
EXTENDS Sequences, TLCExt, Relayer, Toolbox, Naturals, TLC

expression == 
    [
        \* To hide variables of the `Relayer` spec from the error trace,
        \* remove the variables below.  The trace will be written in the order
        \* of the fields of this record.
        cur |-> cur
        ,mode |-> mode
        ,file |-> file
        ,last |-> last
        ,ntx |-> ntx
        ,up |-> up
        ,ncrash |-> ncrash
        ,cel |-> cel
        ,skipTo |-> skipTo
        
        \* Put additional constant-, state-, and action-level expressions here:
        \* ,_stateNumber |-> _TEPosition
        \* ,_curUnchanged |-> cur = cur'
        
        \* Format the `cur` variable as Json value.
        \* ,_curJson |->
        \*     LET J == INSTANCE Json
        \*     IN J!ToJson(cur)
        
        \* Lastly, you may build expressions over arbitrary sets of states by
        \* leveraging the _TETrace operator.  For example, this is how to
        \* count the number of times a spec variable changed up to the current
        \* state in the trace.
        \* ,_curModCount |->
        \*     LET F[s \in DOMAIN _TETrace] ==
        \*         IF s = 1 THEN 0
        \*         ELSE IF _TETrace[s].cur # _TETrace[s-1].cur
        \*             THEN 1 + F[s-1] ELSE F[s-1]
        \*     IN F[_TEPosition - 1]
    ]

=============================================================================



Parsing and semantic processing can take forever if the trace below is long.
 In this case, it is advised to uncomment the module below to deserialize the
 trace from a generated binary file.

\*
\*---- MODULE Relayer_TETrace ----
\*EXTENDS IOUtils, Relayer, TLC
\*
\*trace == IODeserialize("Relayer_TTrace_1790071621.bin", TRUE)
\*
\*=============================================================================
\*

---- MODULE Relayer_TETrace ----
EXTENDS Relayer, TLC

trace == 
    <<
    ([mode |-> "boot",cur |-> [tx |-> 0, lo |-> 0, hi |-> 0],file |-> [k |-> "fresh", last |-> 0, h |-> 0, tx |-> 0],ntx |-> 0,last |-> 0,ncrash |-> 0,skipTo |-> 0,up |-> FALSE,cel |-> <<[lo |-> 0, hi |-> 0, st |-> "none"], [lo |-> 0, hi |-> 0, st |-> "none"], [lo |-> 0, hi |-> 0, st |-> "none"]>>]),
    ([mode |-> "idle",cur |-> [tx |-> 0, lo |-> 0, hi |-> 0],file |-> [k |-> "fresh", last |-> 0, h |-> 0, tx |-> 0],ntx |-> 0,last |-> 0,ncrash |-> 0,skipTo |-> 0,up |-> TRUE,cel |-> <<[lo |-> 0, hi |-> 0, st |-> "none"], [lo |-> 0, hi |-> 0, st |-> "none"], [lo |-> 0, hi |-> 0, st |-> "none"]>>]),
    ([mode |-> "preparing",cur |-> [tx |-> 0, lo |-> 1, hi |-> 1],file |-> [k |-> "fresh", last |-> 0, h |-> 0, tx |-> 0],ntx |-> 0,last |-> 0,ncrash |-> 0,skipTo |-> 0,up |-> TRUE,cel |-> <<[lo |-> 0, hi |-> 0, st |-> "none"], [lo |-> 0, hi |-> 0, st |-> "none"], [lo |-> 0, hi |-> 0, st |-> "none"]>>]),
    ([mode |-> "prepared",cur |-> [tx |-> 1, lo |-> 1, hi |-> 1],file |-> [k |-> "prepared", last |-> 0, h |-> 1, tx |-> 1],ntx |-> 1,last |-> 0,ncrash |-> 0,skipTo |-> 0,up |-> TRUE,cel |-> <<[lo |-> 1, hi |-> 1, st |-> "none"], [lo |-> 0, hi |-> 0, st |-> "none"], [lo |-> 0, hi |-> 0, st |-> "none"]>>]),
    ([mode |-> "confirming",cur |-> [tx |-> 1, lo |-> 1, hi |-> 1],file |-> [k |-> "prepared", last |-> 0, h |-> 1, tx |-> 1],ntx |-> 1,last |-> 0,ncrash |-> 0,skipTo |-> 0,up |-> TRUE,cel |-> <<[lo |-> 1, hi |-> 1, st |-> "pending"], [lo |-> 0, hi |-> 0, st |-> "none"], [lo |-> 0, hi |-> 0, st |-> "none"]>>]),
    ([mode |-> "boot",cur |-> [tx |-> 0, lo |-> 0, hi |-> 0],file |-> [k |-> "prepared", last |-> 0, h |-> 1, tx |-> 1],ntx |-> 1,last |-> 0,ncrash |-> 1,skipTo |-> 0,up |-> FALSE,cel |-> <<[lo |-> 1, hi |-> 1, st |-> "pending"], [lo |-> 0, hi |-> 0, st |-> "none"], [lo |-> 0, hi |-> 0, st |-> "none"]>>]),
    ([mode |-> "confirmPrev",cur |-> [tx |-> 0, lo |-> 0, hi |-> 0],file |-> [k |-> "prepared", last |-> 0, h |-> 1, tx |-> 1],ntx |-> 1,last |-> 0,ncrash |-> 1,skipTo |-> 1,up |-> TRUE,cel |-> <<[lo |-> 1, hi |-> 1, st |-> "pending"], [lo |-> 0, hi |-> 0, st |-> "none"], [lo |-> 0, hi |-> 0, st |-> "none"]>>]),
    ([mode |-> "idle",cur |-> [tx |-> 0, lo |-> 0, hi |-> 0],file |-> [k |-> "started", last |-> 0, h |-> 0, tx |-> 0],ntx |-> 1,last |-> 0,ncrash |-> 1,skipTo |-> 1,up |-> TRUE,cel |-> <<[lo |-> 1, hi |-> 1, st |-> "pending"], [lo |-> 0, hi |-> 0, st |-> "none"], [lo |-> 0, hi |-> 0, st |-> "none"]>>]),
    ([mode |-> "preparing",cur |-> [tx |-> 0, lo |-> 2, hi |-> 2],file |-> [k |-> "started", last |-> 0, h |-> 0, tx |-> 0],ntx |-> 1,last |-> 0,ncrash |-> 1,skipTo |-> 1,up |-> TRUE,cel |-> <<[lo |-> 1, hi |-> 1, st |-> "pending"], [lo |-> 0, hi |-> 0, st |-> "none"], [lo |-> 0, hi |-> 0, st |-> "none"]>>]),
    ([mode |-> "prepared",cur |-> [tx |-> 2, lo |-> 2, hi |-> 2],file |-> [k |-> "prepared", last |-> 0, h |-> 2, tx |-> 2],ntx |-> 2,last |-> 0,ncrash |-> 1,skipTo |-> 1,up |-> TRUE,cel |-> <<[lo |-> 1, hi |-> 1, st |-> "pending"], [lo |-> 2, hi |-> 2, st |-> "none"], [lo |-> 0, hi |-> 0, st |-> "none"]>>]),
    ([mode |-> "confirmFailed",cur |-> [tx |-> 2, lo |-> 2, hi |-> 2],file |-> [k |-> "prepared", last |-> 0, h |-> 2, tx |-> 2],ntx |-> 2,last |-> 0,ncrash |-> 1,skipTo |-> 1,up |-> TRUE,cel |-> <<[lo |-> 1, hi |-> 1, st |-> "pending"], [lo |-> 2, hi |-> 2, st |-> "pending"], [lo |-> 0, hi |-> 0, st |-> "none"]>>]),
    ([mode |-> "confirmFailed",cur |-> [tx |-> 2, lo |-> 2, hi |-> 2],file |-> [k |-> "prepared", last |-> 0, h |-> 2, tx |-> 2],ntx |-> 2,last |-> 0,ncrash |-> 1,skipTo |-> 1,up |-> TRUE,cel |-> <<[lo |-> 1, hi |-> 1, st |-> "pending"], [lo |-> 2, hi |-> 2, st |-> "confirmed"], [lo |-> 0, hi |-> 0, st |-> "none"]>>])
    >>
----


=============================================================================

---- CONFIG Relayer_TTrace_1790071621 ----
CONSTANTS
    MaxH = 3
    MaxTx = 3
    MaxCrash = 2
    MaxBatch = 2
    AtomicWrite = TRUE
    ReaderStart = "prepared"

INVARIANT
    _inv

CHECK_DEADLOCK
    \* CHECK_DEADLOCK off because of PROPERTY or INVARIANT above.
    FALSE

INIT
    _init

NEXT
    _next

CONSTANT
    _TETrace <- _trace

ALIAS
    _expression
=============================================================================
\* Generated on Tue Sep 22 10:07:05 UTC 2026