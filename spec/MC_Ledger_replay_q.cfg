CONSTANTS NA = 4  Assets = {"nria", "alt", "big"}  BigCap = 3  Profile = "replay"  MaxTxs = 2  BlockMode = FALSE
INIT Init
NEXT Next
INVARIANTS TypeOK
PROPERTIES Conservation FeesExact FeesAccumulate FeesRouted DebitAuthorised PrivilegedChange Atomic NonceStep DepositsBacked WithdrawalOnce
ACTION_CONSTRAINT LogStep
CHECK_DEADLOCK FALSE
