-------------------------------- MODULE Abci --------------------------------
(***************************************************************************)
(* One node's App driven through every order of consensus calls CometBFT   *)
(* may issue for one height: app/mod.rs (prepare_proposal,                 *)
(* process_proposal, finalize_block, commit, update_state_for_new_round)   *)
(* and app/execution_state.rs (ExecutionStateMachine).                     *)
(*                                                                         *)
(* The abstract chain state keeps what two phases of block execution both  *)
(* touch -- the currency-pair entry for one pair P (exists, price nonce,   *)
(* priced) -- plus a counter of executed transactions, so that the ORDER   *)
(* in which the phases run is visible in the result.                       *)
(*                                                                         *)
(* Canonical(c, b) is what a node computes that only ever sees             *)
(* FinalizeBlock(b) on committed state c (syncing, or after a restart).    *)
(* The property: whatever legal sequence of calls preceded it,             *)
(* FinalizeBlock(b) yields Canonical(committed, b), or fails iff it does.  *)
(*                                                                         *)
(* Named deviation "F3" (known finding): when the block was already        *)
(* executed in prepare/process_proposal, finalize_block applies the vote-  *)
(* extension prices AFTER the transactions; otherwise BEFORE them.         *)
(***************************************************************************)
EXTENDS Naturals, Sequences, FiniteSets, TLC, Json

CONSTANTS MaxCalls,    \* prepare/process/restart calls before the decision
          TxSet,       \* "small" | "big": which transaction lists blocks are made of
          Dev

\* "noop": a transfer; "removeP": CurrencyPairsChange removing P; "addQ": CurrencyPairsChange adding another pair.
\* (Re-adding P in the block that removes it is not constructible against committed state, where P still exists, so
\*  no mempool ever holds such a transaction.)
TxKind == {"noop", "removeP", "addQ"}
TxLists == IF TxSet = "small" THEN {<<>>, <<"noop">>, <<"removeP">>, <<"noop", "removeP">>}
           ELSE {<<>>, <<"noop">>, <<"removeP">>, <<"noop", "removeP">>, <<"addQ">>, <<"removeP", "addQ">>}
\* bad: a faulty proposer appended a transaction that cannot execute (a nonce gap): every honest node refuses the block
\* misb: the block carries evidence of misbehaviour of one validator (begin_block then takes it out of the set); everything
\* else about two blocks -- time, proposer, last commit, transactions -- may be identical
Blocks == [prices : BOOLEAN, txs : TxLists, bad : BOOLEAN, misb : {FALSE}]
          \cup [prices : BOOLEAN, txs : {<<>>, <<"noop">>}, bad : {FALSE}, misb : {TRUE}]

PairInit == [ex |-> TRUE, nonce |-> 0, priced |-> FALSE, ntx |-> 0, pun |-> FALSE]
Err == [ex |-> FALSE, nonce |-> 99, priced |-> FALSE, ntx |-> 99, pun |-> FALSE]     \* the call returned an error
IsErr(s) == s.nonce = 99

\* apply_prices_from_vote_extensions: put_price_for_currency_pair needs the pair's state
ApplyPrices(s) == IF IsErr(s) THEN s ELSE IF s.ex THEN [s EXCEPT !.nonce = @ + 1, !.priced = TRUE] ELSE Err
ApplyTx(s, k) == IF IsErr(s) THEN s
                 ELSE CASE k = "noop" -> [s EXCEPT !.ntx = @ + 1]
                        [] k = "removeP" -> IF s.ex THEN [ex |-> FALSE, nonce |-> 0, priced |-> FALSE, ntx |-> s.ntx + 1, pun |-> s.pun] ELSE Err
                        [] k = "addQ" -> [s EXCEPT !.ntx = @ + 1]
RECURSIVE ApplyTxs(_, _)
ApplyTxs(s, txs) == IF txs = <<>> THEN s ELSE ApplyTxs(ApplyTx(s, Head(txs)), Tail(txs))

\* begin_block: evidence is acted upon before anything else of the block
Punish(s, b) == IF b.misb /\ ~IsErr(s) THEN [s EXCEPT !.pun = TRUE] ELSE s
Canonical(c, b) == ApplyTxs(IF b.prices THEN ApplyPrices(Punish(c, b)) ELSE Punish(c, b), b.txs)
\* blocks an honest proposer can build on c and honest validators accept (ProcessProposal does not apply prices)
Proposable(c, b) == ~b.bad /\ ~IsErr(ApplyTxs(c, b.txs))

VARIABLES committed,  \* committed chain state
          work,       \* the App's in-memory state delta (as the resulting abstract state)
          es,         \* ExecutionStateMachine: [k, b]
          calls, decided, result, hist
vars == <<committed, work, es, calls, decided, result, hist>>
View == <<committed, work, es, calls, decided, result>>

NoBlock == [prices |-> FALSE, txs |-> <<"none">>, bad |-> FALSE, misb |-> FALSE]
ES(k, b) == [k |-> k, b |-> b]
Unset == ES("unset", NoBlock)

Init == /\ committed = PairInit /\ work = PairInit /\ es = Unset /\ calls = 0
        /\ decided = NoBlock /\ result = [k |-> "none"] /\ hist = <<>>

\* prepare_proposal: always resets (update_state_for_new_round), runs pre_execute and the mempool's transactions
\* (keeping those that execute), no prices; set_prepared_proposal
Prepare(b) ==
  /\ decided = NoBlock /\ calls < MaxCalls /\ Proposable(committed, b)
  /\ work' = ApplyTxs(Punish(committed, b), b.txs)
  /\ es' = ES("prepared", b)
  /\ calls' = calls + 1 /\ hist' = Append(hist, [op |-> "prepare", b |-> b, ok |-> TRUE])
  /\ UNCHANGED <<committed, decided, result>>

\* process_proposal(b)
Process(b) ==
  /\ decided = NoBlock /\ calls < MaxCalls
  \* the verdict must be the one a node gives that sees this proposal first: accept iff the block is proposable
  /\ calls' = calls + 1 /\ hist' = Append(hist, [op |-> "process", b |-> b, ok |-> Proposable(committed, b)])
  /\ LET skip == es.k \in {"prepared", "preparedValid"} /\ es.b = b IN
     IF skip
       THEN /\ work' = work /\ es' = ES("executed", b)         \* PreparedValid, then set_executed_block
       ELSE LET w == ApplyTxs(Punish(committed, b), b.txs) IN              \* reset, execute
            IF IsErr(w) \/ b.bad THEN /\ work' = committed /\ es' = Unset    \* proposal rejected: nothing of it may remain
                        ELSE /\ work' = w /\ es' = ES("executed", b)
  /\ UNCHANGED <<committed, decided, result>>

\* the node restarts: a new App from storage
Restart ==
  /\ decided = NoBlock /\ calls < MaxCalls
  /\ calls' = calls + 1 /\ hist' = Append(hist, [op |-> "restart", b |-> NoBlock, ok |-> TRUE])
  /\ work' = committed /\ es' = Unset
  /\ UNCHANGED <<committed, decided, result>>

\* finalize_block(b): consensus decided b (a block honest validators accept)
Finalize(b) ==
  /\ decided = NoBlock /\ Proposable(committed, b)
  /\ decided' = b /\ hist' = Append(hist, [op |-> "finalize", b |-> b, ok |-> TRUE])
  /\ LET skip == es.k = "executed" /\ es.b = b
         w == IF skip /\ "F3" \in Dev
                THEN (IF b.prices THEN ApplyPrices(work) ELSE work)     \* as coded: prices AFTER the cached execution
                ELSE Canonical(committed, b)                            \* reset, prices, then transactions
     IN /\ work' = w
        /\ result' = [k |-> "done", state |-> w, canon |-> Canonical(committed, b),
                      dev |-> skip /\ "F3" \in Dev /\ b.prices /\ w # Canonical(committed, b)]
  /\ es' = ES("executed", b)
  /\ UNCHANGED <<committed, calls>>

Next == (\E b \in Blocks : Prepare(b) \/ Process(b) \/ Finalize(b)) \/ Restart
Spec == Init /\ [][Next]_vars

-----------------------------------------------------------------------------
(* C05 *)
PathIndependence == result.k = "done" => result.state = result.canon
PathIndependenceOrKnown == result.k = "done" => (result.state = result.canon \/ result.dev)
\* set_executed_block is never reached in a state where it bails: finalize / process always run from
\* unset (after a reset) or from a validated prepared proposal
NeverStuck == es.k \in {"unset", "prepared", "preparedValid", "executed"}

Done == result.k = "done" => PrintT(<<"B", ToJson([hist |-> hist, agrees |-> result.state = result.canon, dev |-> result.dev])>>)
=============================================================================
