CONSTANTS MaxSize = 4  MaxItem = 5  Cap = 3  MaxOps = 7  GeBug = FALSE
INIT Init
NEXT Next
VIEW View
INVARIANTS ExactlyOnceInOrder WithinMax FinishedWithinCap NoEmptyFinished
PROPERTIES RefusalOnlyIf AcceptedOnlyGrows
ACTION_CONSTRAINT LogStep
CHECK_DEADLOCK FALSE
