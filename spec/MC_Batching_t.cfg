CONSTANTS MaxH = 7  MaxBytes = 8  Sizes = {1, 3, 5, 8, 9}
CONSTANT Log <- NoLog
SPECIFICATION Spec
INVARIANTS ExactlyOnceInOrder SizeBound BatchFits
PROPERTIES AllSubmitted
CHECK_DEADLOCK FALSE
