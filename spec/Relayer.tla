------------------------------- MODULE Relayer -------------------------------
(***************************************************************************)
(* The sequencer-relayer's submission protocol across crashes:             *)
(* relayer/submission.rs (the state file: fresh / started / prepared,      *)
(* written as temp file + rename), relayer/write/mod.rs (BlobSubmitter::run,*)
(* try_confirm_submission_from_last_session, submit_with_retry, try_submit, *)
(* try_confirm_submission_from_failed_attempt), relayer/mod.rs (the reader  *)
(* restarts after the last completed height; the submitter skips heights    *)
(* already covered), celestia_client (try_prepare, BroadcastTx, GetTx).     *)
(*                                                                         *)
(* One action per observable step of the implementation: an RPC reaching    *)
(* the Celestia app, or a write of the state file.  Celestia is the         *)
(* environment: a broadcast BlobTx is lost or enters its mempool            *)
(* (whatever the relayer is told), and a pending one may be included at any *)
(* later time -- also after the relayer gave up on it -- or be evicted.     *)
(* The relayer may be stopped at any instant (Crash); only the state file   *)
(* and Celestia survive.                                                    *)
(***************************************************************************)
EXTENDS Naturals, Sequences, FiniteSets, TLC

CONSTANTS MaxH,          \* sequencer heights 1..MaxH exist
          MaxTx,         \* BlobTxs the relayer may create
          MaxCrash,
          MaxBatch,      \* blocks per submission
          AtomicWrite,   \* TRUE: temp file + rename (the code); FALSE: writes in place (mutant)
          ReaderStart    \* "last": the reader restarts after the last completed height (the code);
                         \* "prepared": after the prepared height (mutant)

Tx == 1..MaxTx
NoFile == [k |-> "fresh", last |-> 0, h |-> 0, tx |-> 0]
Started(l) == [k |-> "started", last |-> l, h |-> 0, tx |-> 0]
Prepared(h, l, t) == [k |-> "prepared", last |-> l, h |-> h, tx |-> t]
Torn == [k |-> "torn", last |-> 0, h |-> 0, tx |-> 0]

VARIABLES file,      \* the submission state file
          cel,       \* [Tx -> [lo, hi, st]]: st in "none" (not created / never reached Celestia), "pending", "confirmed", "lost",
                     \* "failed" (included in a Celestia block but its execution failed: the blobs are not there)
          up,        \* the relayer process is running
          mode,      \* where the submitter is: "boot" | "confirmPrev" | "idle" | "preparing" | "prepared" | "confirming" |
                     \*   "confirmFailed" (after a broadcast timeout)
          last,      \* in memory: StartedSubmission.last_submission.sequencer_height
          skipTo,    \* in memory: the reader was started after this height
          cur,       \* in memory: [lo, hi, tx] of the submission in flight (blobs are fixed across retries)
          ntx, ncrash
vars == <<file, cel, up, mode, last, skipTo, cur, ntx, ncrash>>

NoCur == [lo |-> 0, hi |-> 0, tx |-> 0]
Init == /\ file = NoFile /\ cel = [t \in Tx |-> [lo |-> 0, hi |-> 0, st |-> "none"]]
        /\ up = FALSE /\ mode = "boot" /\ last = 0 /\ skipTo = 0 /\ cur = NoCur /\ ntx = 0 /\ ncrash = 0

\* ---- process start: Relayer::run reads the file (and rewrites it), starts the reader and the submitter
Boot ==
  /\ ~up /\ file.k # "torn"
  /\ up' = TRUE
  /\ last' = file.last
  /\ skipTo' = IF ReaderStart = "prepared" /\ file.k = "prepared" THEN file.h ELSE file.last
  /\ mode' = IF file.k = "prepared" THEN "confirmPrev" ELSE "idle"
  /\ cur' = NoCur
  /\ UNCHANGED <<file, cel, ntx, ncrash>>

\* a write of the state file; in place, a crash in the middle leaves it unreadable
Write(f) == file' = f

\* ---- startup with a prepared file: GetTx(file.tx) polled until confirmed or the timeout passes
ConfirmPrevConfirmed ==
  /\ up /\ mode = "confirmPrev" /\ cel[file.tx].st = "confirmed"
  /\ Write(Started(file.h)) /\ last' = file.h /\ mode' = "idle"
  /\ UNCHANGED <<cel, up, skipTo, cur, ntx, ncrash>>
ConfirmPrevTimeout ==
  /\ up /\ mode = "confirmPrev" /\ cel[file.tx].st # "confirmed"
  /\ Write(Started(file.last)) /\ mode' = "idle"
  /\ UNCHANGED <<cel, up, last, skipTo, cur, ntx, ncrash>>

\* ---- next_submission.take(): the blocks read so far and not yet covered, in order; the reader hands over
\* skipTo+1, skipTo+2, ..; blocks at or below `last` are skipped
TakeBatch(hi) ==
  /\ up /\ mode = "idle"
  /\ LET lo == (IF skipTo > last THEN skipTo ELSE last) + 1 IN
     /\ hi \in lo..MaxH /\ hi - lo < MaxBatch
     /\ cur' = [lo |-> lo, hi |-> hi, tx |-> 0]
  /\ mode' = "preparing"
  /\ UNCHANGED <<file, cel, up, last, skipTo, ntx, ncrash>>

\* (helpers for RelayerTrace: the batch is taken before the account query of try_prepare, which the trace shows first)
TakeBatchAny == \E hi \in 1..MaxH : TakeBatch(hi)

\* try_prepare (account, params, gas price) then StartedSubmission::into_prepared: the file names the BlobTx about to be
\* broadcast.  A retry signs the same blobs again: if nothing changed on Celestia (same account sequence, same fee) that
\* is byte for byte the transaction of the previous attempt (t = cur.tx), otherwise a new one (t = ntx + 1).
WritePrepared(t) ==
  /\ up /\ mode = "preparing"
  /\ \/ /\ t = ntx + 1 /\ ntx < MaxTx
        /\ ntx' = ntx + 1
        /\ cel' = [cel EXCEPT ![t] = [lo |-> cur.lo, hi |-> cur.hi, st |-> "none"]]
     \/ /\ t = cur.tx /\ t # 0
        /\ UNCHANGED <<ntx, cel>>
  /\ cur' = [cur EXCEPT !.tx = t]
  /\ Write(Prepared(cur.hi, last, t)) /\ mode' = "prepared"
  /\ UNCHANGED <<up, last, skipTo, ncrash>>

\* BroadcastTx: delivered or not, and what the relayer is told.  Delivering a transaction Celestia already holds (or
\* already included) changes nothing.
Broadcast(delivered, told) ==
  /\ up /\ mode = "prepared"
  /\ told \in {"ok", "error", "timeout"} /\ (told = "ok" => delivered)
  /\ LET st == cel[cur.tx].st IN
     cel' = [cel EXCEPT ![cur.tx].st = IF delivered THEN (IF st \in {"none", "lost"} THEN "pending" ELSE st)
                                       ELSE (IF st = "none" THEN "lost" ELSE st)]
  /\ mode' = CASE told = "ok" -> "confirming" [] told = "error" -> "preparing" [] told = "timeout" -> "confirmFailed"
  /\ UNCHANGED <<file, up, last, skipTo, cur, ntx, ncrash>>

\* GetTx polled without limit after a successful broadcast, with the confirmation timeout after a timed-out one
Confirmed ==
  /\ up /\ mode \in {"confirming", "confirmFailed"} /\ cel[cur.tx].st = "confirmed"
  /\ Write(Started(cur.hi)) /\ last' = cur.hi /\ mode' = "idle" /\ cur' = NoCur
  /\ UNCHANGED <<cel, up, skipTo, ntx, ncrash>>
FailedAttemptTimeout ==
  /\ up /\ mode = "confirmFailed" /\ cel[cur.tx].st # "confirmed"
  /\ mode' = "preparing"
  /\ UNCHANGED <<file, cel, up, last, skipTo, cur, ntx, ncrash>>

\* ---- Celestia
Include(t) == /\ cel[t].st = "pending" /\ cel' = [cel EXCEPT ![t].st = "confirmed"]
              /\ UNCHANGED <<file, up, mode, last, skipTo, cur, ntx, ncrash>>
Evict(t) == /\ cel[t].st = "pending" /\ cel' = [cel EXCEPT ![t].st = "lost"]
            /\ UNCHANGED <<file, up, mode, last, skipTo, cur, ntx, ncrash>>
\* included, but the transaction failed (out of gas, ...): GetTx reports a height together with an error code
IncludeFailed(t) == /\ cel[t].st = "pending" /\ cel' = [cel EXCEPT ![t].st = "failed"]
                    /\ UNCHANGED <<file, up, mode, last, skipTo, cur, ntx, ncrash>>

\* ---- the process is stopped; memory is gone
Crash ==
  /\ up /\ ncrash < MaxCrash
  /\ up' = FALSE /\ ncrash' = ncrash + 1 /\ mode' = "boot" /\ last' = 0 /\ skipTo' = 0 /\ cur' = NoCur
  /\ UNCHANGED <<file, cel, ntx>>
\* ... in the middle of a write of the state file: with temp file + rename the old or the new content is there (the
\* new one is covered by Crash after the write); written in place, the file may be left truncated
WritePending == (mode = "confirmPrev") \/ (mode = "preparing" /\ ntx < MaxTx)
                \/ (mode \in {"confirming", "confirmFailed"} /\ cel[cur.tx].st = "confirmed")
CrashDuringWrite ==
  /\ up /\ ncrash < MaxCrash /\ WritePending
  /\ file' = IF AtomicWrite THEN file ELSE Torn
  /\ up' = FALSE /\ ncrash' = ncrash + 1 /\ mode' = "boot" /\ last' = 0 /\ skipTo' = 0 /\ cur' = NoCur
  /\ UNCHANGED <<cel, ntx>>

Next == Boot \/ ConfirmPrevConfirmed \/ ConfirmPrevTimeout \/ (\E t \in Tx : WritePrepared(t)) \/ Confirmed \/ FailedAttemptTimeout
        \/ Crash \/ CrashDuringWrite
        \/ (\E hi \in 1..MaxH : TakeBatch(hi))
        \/ (\E d \in BOOLEAN, told \in {"ok", "error", "timeout"} : Broadcast(d, told))
        \/ (\E t \in Tx : Include(t) \/ Evict(t) \/ IncludeFailed(t))
Spec == Init /\ [][Next]_vars

-----------------------------------------------------------------------------
(* C11 *)
Covered(h) == \E t \in Tx : cel[t].st = "confirmed" /\ cel[t].lo <= h /\ h <= cel[t].hi
MaxConfirmed == LET S == {cel[t].hi : t \in {x \in Tx : cel[x].st = "confirmed"}} IN
                IF S = {} THEN 0 ELSE CHOOSE m \in S : \A x \in S : x <= m
\* every height from the first relayed one to the latest confirmed one is on Celestia
NoGap == \A h \in 1..MaxConfirmed : Covered(h)
\* the file never records a height as submitted unless Celestia confirmed every height up to it
FileHonest == file.k \in {"started", "prepared"} => \A h \in 1..file.last : Covered(h)
FileReadable == file.k # "torn"
\* what the relayer believes in memory is confirmed too
MemHonest == up => \A h \in 1..last : Covered(h)
TypeOK == /\ file.k \in {"fresh", "started", "prepared", "torn"}
          /\ file.k = "prepared" => file.h > file.last
=============================================================================
