CONSTANTS Types = {"tx", "full", "filtered", "filtered_empty", "metadata", "rollupdata"}  MaxDepth = 4  MaxIdx = 6
INIT Init
NEXT Next
INVARIANTS NoThirdWayOut AcceptedIsConsistent Export
CHECK_DEADLOCK FALSE
