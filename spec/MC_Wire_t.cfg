CONSTANTS Types = {"tx", "full", "filtered", "metadata", "rollupdata"}  MaxDepth = 4  MaxIdx = 6
INIT Init
NEXT Next
INVARIANTS NoThirdWayOut AcceptedIsConsistent Export
CHECK_DEADLOCK FALSE
