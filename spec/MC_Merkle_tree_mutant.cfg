CONSTANTS N = 17  W = 8  Dup = FALSE  Mode = "tree"  CheckedDecode = FALSE
INIT Init
NEXT Next
INVARIANTS RootIsMTH SizeIsOdd ProofIsPATH Complete Sound NoProofOutside NeverPanicsOnMutations Export
CHECK_DEADLOCK FALSE
