------------------------------- MODULE Ledger -------------------------------
(***************************************************************************)
(* The sequencer's ledger: accounts, fees, bridge accounts, authorities,   *)
(* block-ephemeral fee and deposit accumulators.                           *)
(*                                                                         *)
(* Sources transcribed: checked_transaction/mod.rs (CheckedTransaction::   *)
(* new / execute), checked_actions/checked_action.rs (pay_fee), utils.rs   *)
(* (fee), one operator per CheckedAction variant written in the order of   *)
(* the Rust `run_mutable_checks` / `execute` bodies, app/mod.rs            *)
(* (execute_transaction: all-or-nothing delta; end_block: block fees to    *)
(* the fee recipient).                                                     *)
(*                                                                         *)
(* A transaction is *constructed* (immutable + mutable checks of every     *)
(* action against one state, the state the mempool saw) and later          *)
(* *executed* (nonce, then per action: fee, mutable checks again, effects) *)
(* against the then-current state.  The two states may differ (stale       *)
(* transactions), which is what run_mutable_checks exists for.             *)
(***************************************************************************)
EXTENDS Integers, Sequences, FiniteSets, TLC, Json

CONSTANTS NA,          \* accounts 1..NA
          Assets,      \* e.g. {"nria", "alt", "big"}
          BigCap,      \* model stand-in for u128::MAX for asset "big" (real amount = model * floor(u128::MAX / BigCap))
          Profile,     \* selects initial state classes and the transaction universe
          MaxTxs,      \* transactions per behaviour (block)
          BlockMode    \* TRUE: every transaction of the block is constructed against the block's start state, as
                       \* finalize_block does (construct_checked_txs before executing any of them)

Acct == 1..NA
NoAcct == 0
Events == {"e1", "e2"}
Kinds == {"transfer", "rollup_data", "bridge_lock", "bridge_unlock", "bridge_transfer", "bridge_sudo_change",
          "init_bridge", "sudo_change", "fee_change", "fee_asset_change", "ibc_sudo_change", "ibc_relayer_change",
          "validator_update", "ics20_withdrawal", "ibc_relay", "pairs_change", "markets_change"}
FeeBearing == {"transfer", "rollup_data", "bridge_lock", "bridge_unlock", "bridge_transfer", "bridge_sudo_change",
               "init_bridge", "ics20_withdrawal"}

Cap(asset) == IF asset = "big" THEN BigCap ELSE 1000000

NoBridge == [is |-> FALSE, asset |-> "nria", sudo |-> NoAcct, wd |-> NoAcct, dis |-> FALSE]
MkBridge(asset, sudo, wd, dis) == [is |-> TRUE, asset |-> asset, sudo |-> sudo, wd |-> wd, dis |-> dis]
FeeOff == [on |-> FALSE, b |-> 0, m |-> 0]
Fee(b, m) == [on |-> TRUE, b |-> b, m |-> m]

-----------------------------------------------------------------------------
(* Actions: one uniform record shape *)
Act(k) == [k |-> k, to |-> NoAcct, from |-> NoAcct, asset |-> "nria", amt |-> 0, ev |-> "e1", fa |-> "none",
           sz |-> 0, flag |-> FALSE, n1 |-> NoAcct, n2 |-> NoAcct, fk |-> "transfer", b |-> 0, m |-> 0]
Transfer(to, asset, amt, fa) == [Act("transfer") EXCEPT !.to = to, !.asset = asset, !.amt = amt, !.fa = fa]
RollupData(sz, fa) == [Act("rollup_data") EXCEPT !.sz = sz, !.fa = fa]
BridgeLock(to, asset, amt, fa) == [Act("bridge_lock") EXCEPT !.to = to, !.asset = asset, !.amt = amt, !.fa = fa]
BridgeUnlock(from, to, amt, ev, fa) ==
  [Act("bridge_unlock") EXCEPT !.from = from, !.to = to, !.amt = amt, !.ev = ev, !.fa = fa]
BridgeTransfer(from, to, amt, ev, fa) ==
  [Act("bridge_transfer") EXCEPT !.from = from, !.to = to, !.amt = amt, !.ev = ev, !.fa = fa]
\* n1 / n2 = new sudo / new withdrawer (NoAcct: unchanged); flag = disable_deposits
BridgeSudoChange(b, n1, n2, dis, fa) ==
  [Act("bridge_sudo_change") EXCEPT !.from = b, !.n1 = n1, !.n2 = n2, !.flag = dis, !.fa = fa]
\* n1 / n2 = sudo / withdrawer (NoAcct: default to the signer)
InitBridge(asset, n1, n2, fa) == [Act("init_bridge") EXCEPT !.asset = asset, !.n1 = n1, !.n2 = n2, !.fa = fa]
SudoChange(n) == [Act("sudo_change") EXCEPT !.n1 = n]
FeeChange(fk, b, m) == [Act("fee_change") EXCEPT !.fk = fk, !.b = b, !.m = m]
\* flag = TRUE: addition
FeeAssetChange(add, asset) == [Act("fee_asset_change") EXCEPT !.flag = add, !.asset = asset]
IbcSudoChange(n) == [Act("ibc_sudo_change") EXCEPT !.n1 = n]
IbcRelayerChange(add, a) == [Act("ibc_relayer_change") EXCEPT !.flag = add, !.n1 = a]
ValidatorUpdate(v, power) == [Act("validator_update") EXCEPT !.n1 = v, !.amt = power]
\* ICS-20 withdrawal over channel-0 of `amt` of `asset`: from = the bridge account it is made for (NoAcct: the signer's
\* own funds), ev = the rollup withdrawal event (bridge only), n1 = the return address named in the packet
Ics20Withdrawal(asset, amt, from, ev, ret, fa) ==
  [Act("ics20_withdrawal") EXCEPT !.asset = asset, !.amt = amt, !.from = from, !.ev = ev, !.n1 = ret, !.fa = fa]
\* an IbcRelay action whose message penumbra refuses (after the Blackburn upgrade a non-fatal failure)
IbcRelayBad == Act("ibc_relay")
\* CurrencyPairsChange::Addition of one oracle currency pair the chain does not have yet (the oracle's own state is
\* Oracle.tla / Abci.tla's business; here only who may do it, and that it happens once)
PairsChange == Act("pairs_change")
\* MarketsChange::Creation of one market the market map does not have yet
MarketsChange == Act("markets_change")

Group(a) == CASE a.k \in {"sudo_change", "ibc_sudo_change"} -> 1
              [] a.k \in {"ibc_relayer_change", "fee_change", "fee_asset_change", "pairs_change", "markets_change"} -> 2
              [] a.k \in {"init_bridge", "bridge_sudo_change"} -> 3
              [] OTHER -> 4
Tx(signer, nonce, acts) == [signer |-> signer, nonce |-> nonce, acts |-> acts]
\* protocol well-formedness (TransactionBody::try_build): one group, unbundleable groups hold one action
WellFormedTx(tx) == /\ Len(tx.acts) >= 1
                    /\ \A i \in 1..Len(tx.acts) : Group(tx.acts[i]) = Group(tx.acts[1])
                    /\ (Group(tx.acts[1]) \in {1, 3} => Len(tx.acts) = 1)

-----------------------------------------------------------------------------
(* Results *)
Fail == [ok |-> FALSE]
Ok(s) == [ok |-> TRUE, s |-> s]

Debit(s, a, asset, amt) ==
  IF s.bal[a][asset] < amt THEN Fail ELSE Ok([s EXCEPT !.bal[a][asset] = @ - amt])
Credit(s, a, asset, amt) ==
  IF s.bal[a][asset] + amt > Cap(asset) THEN Fail ELSE Ok([s EXCEPT !.bal[a][asset] = @ + amt])
Then(r, F(_)) == IF r.ok THEN F(r.s) ELSE Fail

\* variable fee component of a BridgeLock: DEPOSIT_BASE_FEE (16) + |asset denomination| + |destination chain
\* address|; the harness uses the one-character destination address "d"
LockVC(asset) == 16 + (CASE asset = "nria" -> 4 [] asset = "alt" -> 3 [] asset = "big" -> 3 [] OTHER -> 4) + 1

\* variable component of the fee (fees/fee_handler.rs)
VC(a) == CASE a.k = "rollup_data" -> a.sz
           [] a.k = "bridge_lock" -> LockVC(a.asset)
           [] OTHER -> 0

\* checked_action.rs pay_fee + utils.rs fee
PayFee(s, signer, a) ==
  IF ~s.fee[a.k].on THEN Fail                          \* ActionDisabled (also for the fee-less kinds)
  ELSE IF a.k \notin FeeBearing THEN Ok(s)             \* no fee asset: free
  ELSE IF a.fa \notin s.feeAssets THEN Fail            \* FeeAssetIsNotAllowed
  ELSE LET f == s.fee[a.k].b + s.fee[a.k].m * VC(a) IN
       IF s.bal[signer][a.fa] < f THEN Fail
       ELSE Ok([s EXCEPT !.bal[signer][a.fa] = @ - f, !.bfees[a.fa] = @ + f,
                         !.charged = Append(@, [payer |-> signer, asset |-> a.fa, amt |-> f, kind |-> a.k])])

Deposit(s, b, asset, amt) == [s EXCEPT !.deps = Append(@, [b |-> b, asset |-> asset, amt |-> amt])]

\* Checks made once, when the CheckedAction is constructed (facts that cannot change afterwards)
ImmutableOK(s, signer, a) ==
  CASE a.k = "rollup_data" -> a.sz > 0        \* "cannot have empty data for rollup data submission"
    [] a.k = "ics20_withdrawal" -> a.amt > 0
    [] a.k = "bridge_lock" -> s.bridge[a.to].is /\ s.bridge[a.to].asset = a.asset
    [] a.k = "bridge_unlock" -> a.amt > 0 /\ s.bridge[a.from].is
    [] a.k = "bridge_transfer" ->
         /\ a.amt > 0 /\ s.bridge[a.from].is
         /\ s.bridge[a.to].is /\ s.bridge[a.to].asset = s.bridge[a.from].asset
    [] OTHER -> TRUE

\* run_mutable_checks of each CheckedAction variant
MutableOK(s, signer, a) ==
  CASE a.k = "transfer" -> ~s.bridge[signer].is
    [] a.k = "rollup_data" -> TRUE
    [] a.k = "bridge_lock" -> ~s.bridge[signer].is /\ ~s.bridge[a.to].dis
    [] a.k = "bridge_unlock" ->
         /\ ~s.bridge[a.to].is
         /\ s.bridge[a.from].wd = signer
         /\ <<a.from, a.ev>> \notin s.wdSeen
    [] a.k = "bridge_transfer" ->
         /\ s.bridge[a.from].wd = signer
         /\ <<a.from, a.ev>> \notin s.wdSeen
         /\ ~s.bridge[a.to].dis
    [] a.k = "bridge_sudo_change" -> s.bridge[a.from].is /\ s.bridge[a.from].sudo = signer
    [] a.k = "init_bridge" -> ~s.bridge[signer].is
    [] a.k \in {"sudo_change", "fee_change", "ibc_sudo_change", "validator_update"} -> s.sudo = signer
    [] a.k = "pairs_change" -> s.sudo = signer /\ ~s.pairAdded
    [] a.k = "markets_change" -> s.sudo = signer /\ ~s.marketAdded
    [] a.k = "fee_asset_change" ->
         /\ s.sudo = signer
         /\ IF a.flag THEN a.asset \notin s.feeAssets
            ELSE a.asset \in s.feeAssets /\ Cardinality(s.feeAssets) > 1
    [] a.k = "ibc_relayer_change" ->
         /\ s.ibcSudo = signer
         /\ IF a.flag THEN a.n1 \notin s.relayers ELSE a.n1 \in s.relayers
    [] a.k = "ics20_withdrawal" ->
         IF a.from = NoAcct THEN ~s.bridge[signer].is
         ELSE s.bridge[a.from].is /\ s.bridge[a.from].wd = signer /\ <<a.from, a.ev>> \notin s.wdSeen
    [] a.k = "ibc_relay" -> signer \in s.relayers

\* execute of each CheckedAction variant, after the fee and the mutable checks
Effect(s, signer, a) ==
  CASE a.k = "transfer" -> Then(Debit(s, signer, a.asset, a.amt), LAMBDA t : Credit(t, a.to, a.asset, a.amt))
    [] a.k = "rollup_data" -> Ok(s)
    [] a.k = "bridge_lock" ->
         Then(Then(Debit(s, signer, a.asset, a.amt), LAMBDA t : Credit(t, a.to, a.asset, a.amt)),
              LAMBDA t : Ok(Deposit(t, a.to, a.asset, a.amt)))
    [] a.k = "bridge_unlock" ->
         LET asset == s.bridge[a.from].asset IN
         Then(Then(Debit(s, a.from, asset, a.amt), LAMBDA t : Credit(t, a.to, asset, a.amt)),
              LAMBDA t : Ok([t EXCEPT !.wdSeen = @ \cup {<<a.from, a.ev>>}]))
    [] a.k = "bridge_transfer" ->
         LET asset == s.bridge[a.from].asset IN
         Then(Then(Debit(s, a.from, asset, a.amt), LAMBDA t : Credit(t, a.to, asset, a.amt)),
              LAMBDA t : Ok([Deposit(t, a.to, asset, a.amt) EXCEPT !.wdSeen = @ \cup {<<a.from, a.ev>>}]))
    [] a.k = "bridge_sudo_change" ->
         Ok([s EXCEPT !.bridge[a.from].sudo = IF a.n1 = NoAcct THEN @ ELSE a.n1,
                      !.bridge[a.from].wd = IF a.n2 = NoAcct THEN @ ELSE a.n2,
                      !.bridge[a.from].dis = a.flag])
    [] a.k = "init_bridge" ->
         Ok([s EXCEPT !.bridge[signer] = MkBridge(a.asset, IF a.n1 = NoAcct THEN signer ELSE a.n1,
                                                  IF a.n2 = NoAcct THEN signer ELSE a.n2, FALSE)])
    [] a.k = "sudo_change" -> Ok([s EXCEPT !.sudo = a.n1])
    [] a.k = "fee_change" -> Ok([s EXCEPT !.fee[a.fk] = Fee(a.b, a.m)])
    [] a.k = "fee_asset_change" ->
         Ok([s EXCEPT !.feeAssets = IF a.flag THEN @ \cup {a.asset} ELSE @ \ {a.asset}])
    [] a.k = "ibc_sudo_change" -> Ok([s EXCEPT !.ibcSudo = a.n1])
    [] a.k = "pairs_change" -> Ok([s EXCEPT !.pairAdded = TRUE])
    [] a.k = "markets_change" -> Ok([s EXCEPT !.marketAdded = TRUE])
    [] a.k = "ibc_relayer_change" ->
         Ok([s EXCEPT !.relayers = IF a.flag THEN @ \cup {a.n1} ELSE @ \ {a.n1}])
    [] a.k = "validator_update" -> Ok([s EXCEPT !.valUpd = @ \cup {<<a.n1, a.amt>>}])
    [] a.k = "ics20_withdrawal" ->
         \* the event is recorded, the paying account (the bridge, else the signer -- never the return address) is
         \* debited, and the tokens, all of sequencer origin here, go into the channel's escrow
         LET payer == IF a.from = NoAcct THEN signer ELSE a.from
             s1 == IF a.from = NoAcct THEN s ELSE [s EXCEPT !.wdSeen = @ \cup {<<a.from, a.ev>>}]
         IN Then(Debit(s1, payer, a.asset, a.amt),
                 LAMBDA t : IF t.escrow[a.asset] + a.amt > Cap(a.asset) THEN Fail
                            ELSE Ok([t EXCEPT !.escrow[a.asset] = @ + a.amt]))
    [] a.k = "ibc_relay" -> Fail

\* CheckedAction::pay_fees_and_execute
ExecAction(s, signer, a) ==
  Then(PayFee(s, signer, a), LAMBDA t : IF MutableOK(t, signer, a) THEN Effect(t, signer, a) ELSE Fail)

RECURSIVE ExecActions(_, _, _)
ExecActions(s, signer, acts) ==
  IF acts = <<>> THEN Ok(s)
  ELSE Then(ExecAction(s, signer, Head(acts)), LAMBDA t : ExecActions(t, signer, Tail(acts)))

\* CheckedTransaction::new against state sc
ConstructOK(sc, tx) ==
  /\ tx.nonce >= sc.nonce[tx.signer]
  /\ \A i \in 1..Len(tx.acts) : ImmutableOK(sc, tx.signer, tx.acts[i]) /\ MutableOK(sc, tx.signer, tx.acts[i])

\* CheckedTransaction::execute inside App::execute_transaction's delta
ExecTxOn(s, tx) ==
  IF tx.nonce # s.nonce[tx.signer] THEN Fail
  ELSE ExecActions([s EXCEPT !.nonce[tx.signer] = @ + 1, !.charged = <<>>], tx.signer, tx.acts)

-----------------------------------------------------------------------------
VARIABLES st,     \* the chain state (committed + in-block delta + block-ephemeral accumulators)
          prev,   \* the state before the last transaction (what a stale transaction was constructed against)
          last,   \* [op, tx, stale, out] of the step that produced this state
          ntx     \* transactions so far in this block
vars == <<st, prev, last, ntx>>

BaseState ==
  [bal |-> [a \in Acct |-> [x \in Assets |-> IF x = "big" THEN 0 ELSE 100]],
   nonce |-> [a \in Acct |-> 0],
   sudo |-> 1, ibcSudo |-> 1, relayers |-> {},
   feeAssets |-> {"nria"},
   fee |-> [k \in Kinds |-> IF k = "fee_change" THEN Fee(0, 0) ELSE Fee(1, 1)],
   bridge |-> [a \in Acct |-> NoBridge],
   wdSeen |-> {},
   bfees |-> [x \in Assets |-> 0],
   deps |-> <<>>,
   valUpd |-> {},
   escrow |-> [x \in Assets |-> 0],
   pairAdded |-> FALSE, marketAdded |-> FALSE,
   charged |-> <<>>]

NoTx == Tx(NoAcct, 0, <<>>)

\* ---- profiles: initial state classes and transaction universes -------------------------------------
\* "fees": C01 — fee formula, fee asset gate, payer, routing at end of block, overflow/underflow
FeesInit ==
  {[BaseState EXCEPT !.fee = [k \in Kinds |-> IF k = "fee_change" THEN Fee(0, 0) ELSE f],
                     !.feeAssets = fas,
                     !.bal[2]["nria"] = bn, !.bal[2]["alt"] = ba, !.bal[2]["big"] = bb, !.bal[3]["big"] = BigCap - 1,
                     !.sudo = sd,
                     !.bridge[3] = MkBridge("nria", 3, 3, FALSE)] :
     f \in {FeeOff, Fee(0, 0), Fee(2, 1)}, fas \in {{"nria"}, {"nria", "alt"}},
     bn \in {0, 3, 100}, ba \in {0, 100}, bb \in {0, 2}, sd \in {1, 4}}
FeesTxs ==
  {Tx(2, 0, <<a>>) : a \in
     {Transfer(to, as, amt, fa) : to \in {1, 2, 4}, as \in {"nria", "big"}, amt \in {0, 1, 2}, fa \in {"nria", "alt"}}
     \cup {RollupData(sz, fa) : sz \in {0, 1, 3}, fa \in {"nria", "alt", "big"}}
     \cup {BridgeLock(3, "nria", amt, fa) : amt \in {0, 1}, fa \in {"nria", "alt"}}}
  \cup {Tx(2, 0, <<a, b>>) : a \in {Transfer(1, "nria", 1, "nria"), RollupData(1, "nria")},
                             b \in {Transfer(4, "nria", 1, "nria"), RollupData(2, "alt"), Transfer(4, "big", 2, "nria")}}
  \cup {Tx(sg, 0, <<a>>) : sg \in {1, 4}, a \in {FeeChange("transfer", 0, 0), FeeChange("rollup_data", 3, 2), SudoChange(4),
                                                 FeeAssetChange(TRUE, "alt"), FeeAssetChange(FALSE, "nria")}}
  \cup {Tx(2, 1, <<Transfer(1, "nria", 1, "nria")>>), Tx(2, 1, <<RollupData(3, "nria")>>)}

\* "auth": C02 — who may debit an account / change privileged state, incl. stale transactions
AuthInit ==
  {[BaseState EXCEPT !.sudo = sd, !.ibcSudo = isd, !.relayers = {4},
                     !.feeAssets = {"nria", "alt"},
                     !.bridge[3] = MkBridge("nria", bs, bw, FALSE),
                     !.bridge[4] = MkBridge("nria", 4, 4, FALSE)] :
     sd \in {1, 2}, isd \in {1, 2}, bs \in {1, 3}, bw \in {2, 3}}
AuthActs ==
  {Transfer(1, "nria", 1, "nria"), Transfer(2, "nria", 1, "nria"), BridgeLock(3, "nria", 1, "nria"),
   BridgeUnlock(3, 1, 1, "e1", "nria"), BridgeUnlock(4, 1, 1, "e1", "nria"),
   BridgeTransfer(3, 4, 1, "e1", "nria"),
   BridgeSudoChange(3, 2, NoAcct, FALSE, "nria"), BridgeSudoChange(3, NoAcct, 1, FALSE, "nria"),
   BridgeSudoChange(3, NoAcct, NoAcct, TRUE, "nria"),
   InitBridge("alt", NoAcct, 2, "nria"),
   SudoChange(2), SudoChange(3), FeeChange("transfer", 0, 0), FeeAssetChange(FALSE, "alt"), FeeAssetChange(TRUE, "big"),
   IbcSudoChange(3), IbcRelayerChange(TRUE, 1), IbcRelayerChange(FALSE, 4), ValidatorUpdate(1, 5),
   Ics20Withdrawal("nria", 2, NoAcct, "e1", 1, "nria"), Ics20Withdrawal("nria", 2, 3, "e1", 1, "nria"),
   Ics20Withdrawal("nria", 2, 4, "e2", 3, "nria"),
   \* "for" an account that is no bridge account at all: nobody but its owner (signing an ordinary withdrawal) may move its funds
   Ics20Withdrawal("nria", 2, 1, "e1", 1, "nria"), Ics20Withdrawal("nria", 2, 2, "e2", 4, "nria"),
   IbcRelayBad, PairsChange, MarketsChange}
AuthTxs == {Tx(sg, n, <<a>>) : sg \in Acct, n \in {0, 1}, a \in AuthActs}

\* "atomic": C03 — bundles failing at every index; nonces below / at / above the account nonce
AtomicInit ==
  {[BaseState EXCEPT !.bal[2]["nria"] = bn, !.nonce[2] = nn,
                     !.bridge[3] = MkBridge("nria", 3, 2, FALSE), !.bridge[4] = MkBridge("nria", 4, 4, dis)] :
     bn \in {2, 4, 100}, nn \in {0, 1}, dis \in BOOLEAN}
AtomicActs ==
  {Transfer(1, "nria", 1, "nria"), Transfer(1, "nria", 3, "nria"), Transfer(2, "nria", 2, "nria"), RollupData(1, "nria"),
   BridgeLock(4, "nria", 1, "nria"), BridgeUnlock(3, 1, 1, "e1", "nria"), BridgeUnlock(3, 1, 200, "e2", "nria"),
   BridgeTransfer(3, 4, 1, "e2", "nria"), ValidatorUpdate(1, 5), Transfer(4, "big", 1, "nria")}
AtomicTxs ==
  {Tx(2, n, <<a>>) : n \in {0, 1, 2}, a \in AtomicActs}
  \cup {Tx(2, n, <<a, b>>) : n \in {0, 1}, a \in AtomicActs, b \in AtomicActs}
  \cup {Tx(2, n, <<a, b, c>>) : n \in {1}, a \in {RollupData(1, "nria"), BridgeLock(4, "nria", 1, "nria")},
                                b \in {BridgeUnlock(3, 1, 1, "e1", "nria"), ValidatorUpdate(1, 5)},
                                c \in AtomicActs}

\* "bridge": C04 — deposits backed by credits, withdrawal event ids honoured once across action kinds
BridgeInit ==
  {[BaseState EXCEPT !.bridge[3] = MkBridge("nria", 3, 2, d3), !.bridge[4] = MkBridge(a4, 4, 2, d4),
                     !.bal[3]["nria"] = b3, !.bal[4]["big"] = BigCap - 1,
                     !.wdSeen = seen] :
     d3 \in BOOLEAN, d4 \in BOOLEAN, a4 \in {"nria", "big"}, b3 \in {0, 5}, seen \in {{}, {<<3, "e1">>}}}
BridgeActs ==
  {BridgeLock(3, "nria", 1, "nria"), BridgeLock(4, "nria", 2, "nria"), BridgeLock(4, "big", 2, "nria"),
   BridgeUnlock(3, 1, 1, "e1", "nria"), BridgeUnlock(3, 1, 2, "e2", "nria"), BridgeUnlock(3, 4, 1, "e2", "nria"),
   BridgeTransfer(3, 4, 1, "e1", "nria"), BridgeTransfer(3, 4, 2, "e2", "nria"), BridgeTransfer(4, 3, 1, "e1", "nria"),
   BridgeTransfer(3, 3, 1, "e2", "nria"), Transfer(3, "nria", 1, "nria"),
   Ics20Withdrawal("nria", 1, 3, "e1", 3, "nria"), Ics20Withdrawal("nria", 1, 3, "e2", 1, "nria")}
BridgeTxs == {Tx(2, n, <<a>>) : n \in {0, 1}, a \in BridgeActs}
             \cup {Tx(2, n, <<a, b>>) : n \in {0, 1}, a \in BridgeActs, b \in BridgeActs}

\* "replay": C03 / C04 — two-transaction blocks explored exhaustively: the same transaction twice, a transaction built
\* before its nonce / withdrawal event / authority was used up by the previous one, a failing bundle after deposits,
\* fees and validator updates have already accumulated in the block, a refused IBC relay after a paid action
ReplayInit ==
  {[BaseState EXCEPT !.bridge[3] = MkBridge("nria", 3, 2, FALSE), !.bridge[4] = MkBridge("nria", 4, 2, FALSE),
                     !.relayers = {2}, !.sudo = sd,
                     \* the signer may itself be a bridge account (its nonce must step all the same; transfers and
                     \* locks signed by it are refused, unlocks / bridge transfers / withdrawals of bridge 3 are not)
                     !.bridge[2] = IF sb THEN MkBridge("nria", 2, 2, FALSE) ELSE NoBridge] : sd \in {1, 2}, sb \in BOOLEAN}
ReplayActs ==
  {Transfer(1, "nria", 1, "nria"), BridgeLock(4, "nria", 1, "nria"), BridgeUnlock(3, 1, 1, "e1", "nria"),
   BridgeTransfer(3, 4, 1, "e1", "nria"), Ics20Withdrawal("nria", 1, 3, "e1", 1, "nria"),
   ValidatorUpdate(1, 5), IbcRelayBad, Transfer(1, "nria", 200, "nria")}
ReplayTxs ==
  {Tx(2, n, <<a>>) : n \in {0, 1}, a \in ReplayActs}
  \cup {Tx(2, n, <<a, b>>) : n \in {0, 1}, a \in {Transfer(1, "nria", 1, "nria"), BridgeLock(4, "nria", 1, "nria"), ValidatorUpdate(1, 5)},
                             b \in {IbcRelayBad, Transfer(1, "nria", 200, "nria"), BridgeUnlock(3, 1, 1, "e1", "nria")}}

InitStates == CASE Profile = "fees" -> FeesInit [] Profile = "auth" -> AuthInit
                [] Profile = "atomic" -> AtomicInit [] Profile = "bridge" -> BridgeInit [] Profile = "replay" -> ReplayInit
Txs == CASE Profile = "fees" -> FeesTxs [] Profile = "auth" -> AuthTxs
         [] Profile = "atomic" -> AtomicTxs [] Profile = "bridge" -> BridgeTxs [] Profile = "replay" -> ReplayTxs

ASSUME \A tx \in Txs : WellFormedTx(tx)

-----------------------------------------------------------------------------
Init == /\ st \in InitStates /\ prev = st /\ ntx = 0
        /\ last = [op |-> "init", tx |-> NoTx, stale |-> FALSE, out |-> "ok"]

\* One transaction: constructed against `prev` (stale) or against the current state, executed on the current one.
ExecTx(tx, stale) ==
  /\ ntx < MaxTxs /\ ntx' = ntx + 1
  /\ LET sc == IF stale THEN prev ELSE st IN
     IF ~ConstructOK(sc, tx)
       THEN /\ st' = [st EXCEPT !.charged = <<>>] /\ prev' = IF BlockMode THEN prev ELSE st
            /\ last' = [op |-> "tx", tx |-> tx, stale |-> stale, out |-> "reject_construct"]
       ELSE LET r == ExecTxOn(st, tx) IN
            /\ st' = IF r.ok THEN r.s ELSE [st EXCEPT !.charged = <<>>]
            /\ prev' = IF BlockMode THEN prev ELSE st
            /\ last' = [op |-> "tx", tx |-> tx, stale |-> stale, out |-> IF r.ok THEN "ok" ELSE "fail_exec"]

\* App::end_block: the block's fees go to the sudo address as it is at the end of the block
EndBlock ==
  /\ last.op # "end_block" /\ ntx > 0
  /\ st' = [st EXCEPT !.bal[st.sudo] = [x \in Assets |-> st.bal[st.sudo][x] + st.bfees[x]],
                      !.bfees = [x \in Assets |-> 0], !.deps = <<>>, !.valUpd = {}, !.charged = <<>>]
  /\ prev' = st /\ ntx' = MaxTxs
  /\ last' = [op |-> "end_block", tx |-> NoTx, stale |-> FALSE, out |-> "ok"]

Next == \/ \E tx \in Txs, stale \in BOOLEAN :
              /\ IF BlockMode THEN stale ELSE (stale => last.op = "tx")
              /\ ExecTx(tx, stale)
        \/ EndBlock
Spec == Init /\ [][Next]_vars

-----------------------------------------------------------------------------
(* Properties *)
RECURSIVE SumF(_, _)
SumF(f, S) == IF S = {} THEN 0 ELSE LET x == CHOOSE y \in S : TRUE IN f[x] + SumF(f, S \ {x})
Supply(s, x) == SumF([a \in Acct |-> s.bal[a][x]], Acct) + s.bfees[x] + s.escrow[x]

IsTx == last'.op = "tx"
TxOk == IsTx /\ last'.out = "ok"
TheTx == last'.tx

\* C01 conservation: no step mints or burns (no IBC in this module's universe)
Conservation == [][\A x \in Assets : Supply(st', x) = Supply(st, x)]_vars
\* C01 fees: every charge is base + mult * size of the fee table *as it was when that action ran*, paid by the signer
RECURSIVE FeeTrace(_, _, _)    \* the sequence of [payer, asset, amt, kind] a successful tx must have produced
FeeTrace(s, signer, acts) ==
  IF acts = <<>> THEN <<>>
  ELSE LET a == Head(acts)
           r == ExecAction(s, signer, a)
           this == IF a.k \in FeeBearing
                     THEN <<[payer |-> signer, asset |-> a.fa, amt |-> s.fee[a.k].b + s.fee[a.k].m * VC(a), kind |-> a.k]>>
                     ELSE <<>>
       IN this \o FeeTrace(r.s, signer, Tail(acts))
FeesExact == [][TxOk => st'.charged = FeeTrace([st EXCEPT !.nonce[TheTx.signer] = @ + 1, !.charged = <<>>],
                                              TheTx.signer, TheTx.acts)]_vars
FeesAccumulate == [][TxOk => \A x \in Assets :
      st'.bfees[x] - st.bfees[x] = SumF([i \in 1..Len(st'.charged) |-> IF st'.charged[i].asset = x THEN st'.charged[i].amt ELSE 0],
                                        1..Len(st'.charged))]_vars
FeesRouted == [][last'.op = "end_block" =>
      /\ \A x \in Assets : st'.bal[st.sudo][x] = st.bal[st.sudo][x] + st.bfees[x] /\ st'.bfees[x] = 0
      /\ \A a \in Acct \ {st.sudo} : st'.bal[a] = st.bal[a]]_vars

\* C02 authority
DebitAuthorised == [][IsTx => \A a \in Acct, x \in Assets :
      st'.bal[a][x] < st.bal[a][x] => (a = TheTx.signer \/ (st.bridge[a].is /\ st.bridge[a].wd = TheTx.signer))]_vars
PrivilegedChange == [][IsTx =>
      /\ (st'.sudo # st.sudo \/ st'.fee # st.fee \/ st'.feeAssets # st.feeAssets \/ st'.ibcSudo # st.ibcSudo
          \/ st'.valUpd # st.valUpd \/ st'.pairAdded # st.pairAdded \/ st'.marketAdded # st.marketAdded) => TheTx.signer = st.sudo
      /\ st'.relayers # st.relayers => TheTx.signer = st.ibcSudo
      /\ \A b \in Acct : st'.bridge[b] # st.bridge[b] =>
            IF st.bridge[b].is THEN TheTx.signer = st.bridge[b].sudo ELSE TheTx.signer = b]_vars

\* C03 atomicity and nonce order
Strip(s) == [s EXCEPT !.charged = <<>>]
Atomic == [][(IsTx /\ last'.out # "ok") => Strip(st') = Strip(st)]_vars
NonceStep == [][IsTx => IF last'.out = "ok"
                          THEN /\ TheTx.nonce = st.nonce[TheTx.signer]
                               /\ st'.nonce = [st.nonce EXCEPT ![TheTx.signer] = @ + 1]
                          ELSE st'.nonce = st.nonce]_vars

\* C04 bridge
NewDeps == SubSeq(st'.deps, Len(st.deps) + 1, Len(st'.deps))
DepositsBacked == [][IsTx =>
      /\ Len(st'.deps) >= Len(st.deps) /\ SubSeq(st'.deps, 1, Len(st.deps)) = st.deps
      /\ (last'.out # "ok" => st'.deps = st.deps)
      /\ TxOk => \A b \in Acct, x \in Assets :
           LET dep == SumF([i \in 1..Len(NewDeps) |-> IF NewDeps[i].b = b /\ NewDeps[i].asset = x THEN NewDeps[i].amt ELSE 0],
                           1..Len(NewDeps))
           IN dep > 0 => /\ st.bridge[b].is /\ st.bridge[b].asset = x
                         \* gross credits >= deposits: the bridge may also pay out in the same tx
                         /\ st'.bal[b][x] + SumF([i \in 1..Len(TheTx.acts) |->
                                IF TheTx.acts[i].k \in {"bridge_unlock", "bridge_transfer", "ics20_withdrawal"} /\ TheTx.acts[i].from = b
                                  THEN TheTx.acts[i].amt ELSE 0], 1..Len(TheTx.acts))
                              + (IF b = TheTx.signer THEN SumF([i \in 1..Len(st'.charged) |-> IF st'.charged[i].asset = x THEN st'.charged[i].amt ELSE 0], 1..Len(st'.charged)) ELSE 0)
                            >= st.bal[b][x] + dep]_vars
WithdrawalOnce == [][IsTx =>
      /\ st.wdSeen \subseteq st'.wdSeen
      /\ \A i \in 1..Len(TheTx.acts) :
           (TxOk /\ (TheTx.acts[i].k \in {"bridge_unlock", "bridge_transfer"}
                     \/ (TheTx.acts[i].k = "ics20_withdrawal" /\ TheTx.acts[i].from # NoAcct))) =>
              /\ <<TheTx.acts[i].from, TheTx.acts[i].ev>> \notin st.wdSeen
              /\ <<TheTx.acts[i].from, TheTx.acts[i].ev>> \in st'.wdSeen
              /\ \A j \in 1..Len(TheTx.acts) : (j # i /\ TheTx.acts[j].k \in {"bridge_unlock", "bridge_transfer", "ics20_withdrawal"}
                                                  /\ TheTx.acts[j].from # NoAcct) =>
                    <<TheTx.acts[j].from, TheTx.acts[j].ev>> # <<TheTx.acts[i].from, TheTx.acts[i].ev>>]_vars

TypeOK == /\ \A a \in Acct, x \in Assets : st.bal[a][x] >= 0 /\ st.bal[a][x] <= Cap(x)
          /\ \A x \in Assets : st.bfees[x] >= 0

-----------------------------------------------------------------------------
(* Export: one line per explored transition *)
ProjBridge(b) == IF b.is THEN b ELSE [is |-> FALSE]
Proj(s) == [bal |-> s.bal, nonce |-> s.nonce, sudo |-> s.sudo, ibcSudo |-> s.ibcSudo, relayers |-> s.relayers,
            feeAssets |-> s.feeAssets, fee |-> s.fee, bridge |-> [a \in Acct |-> ProjBridge(s.bridge[a])],
            wdSeen |-> s.wdSeen, bfees |-> s.bfees, deps |-> s.deps, valUpd |-> s.valUpd, escrow |-> s.escrow, pairAdded |-> s.pairAdded, marketAdded |-> s.marketAdded]
LogStep == PrintT(<<"T", ToJson([s |-> Proj(st), sc |-> IF last'.stale THEN Proj(prev) ELSE "same",
                                 a |-> last', t |-> Proj(st'), charged |-> st'.charged])>>)
=============================================================================
