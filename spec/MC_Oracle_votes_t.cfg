CONSTANTS NV = 4  MaxPower = 2  Kinds = {"absent","nil","ok","empty","emptyforged","forged","nosig","longprice","nilext"}  SignedCorrection = TRUE  Part = "votes"
INIT Init
NEXT Next
INVARIANTS AcceptOnlyIf EmptyAlwaysOk HonestAccepted MedianInRange Export
CHECK_DEADLOCK FALSE
