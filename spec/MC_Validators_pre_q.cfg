CONSTANTS Keys = {1, 2, 3}  Powers = {0, 1, 2}  MaxTxs = 2  MaxBlocks = 2  PostAspen = FALSE  AllowUpgrade = FALSE
INIT Init
NEXT Next
INVARIANTS MirrorOrKnown BatchApplicableOrKnown NeverEmptyOrKnown
ACTION_CONSTRAINT LogStep
CHECK_DEADLOCK FALSE
