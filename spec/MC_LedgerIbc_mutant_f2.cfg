CONSTANTS NA = 3  Dev = {"F2"}  MaxOps = 4  Profile = "flow"
INIT Init
NEXT Next
VIEW View
INVARIANTS EscrowIdentity EscrowNonNegative NoGapByDesign
PROPERTIES FailedRecvNoEffect DepositsBacked ConservationNative

CHECK_DEADLOCK FALSE
