CONSTANTS Mode = "trace"  MaxQ = 2
INIT Init
NEXT Next
INVARIANTS BlockIsBuild PrepareThenProcessAcceptsOrKnown WithinCometLimit WithinSequencedLimit GroupsNonIncreasing IncludedExecute FirstFitIncluded
CHECK_DEADLOCK FALSE
