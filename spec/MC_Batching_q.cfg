CONSTANTS MaxH = 5  MaxBytes = 6  Sizes = {1, 3, 6, 7}
CONSTANT Log <- NoLog
SPECIFICATION Spec
INVARIANTS ExactlyOnceInOrder SizeBound BatchFits
PROPERTIES AllSubmitted
CHECK_DEADLOCK FALSE
