CONSTANTS NV = 3  MaxPower = 1  Kinds = {"ok"}  SignedCorrection = TRUE  Part = "lastcommit"
INIT Init
NEXT Next
INVARIANTS AcceptOnlyIf EmptyAlwaysOk HonestAccepted MedianInRange Export
CHECK_DEADLOCK FALSE
