CONSTANTS MaxH = 4  MaxTx = 5  MaxCrash = 3  MaxBatch = 3  AtomicWrite = TRUE  ReaderStart = "last"
INIT Init
NEXT Next
INVARIANTS NoGap FileHonest FileReadable MemHonest TypeOK
CHECK_DEADLOCK FALSE
