CONSTANTS MaxH = 8  MaxTx = 16  MaxCrash = 12  MaxBatch = 8  AtomicWrite = TRUE  ReaderStart = "last"
INIT TInit
NEXT TNext
INVARIANTS NoGap FileHonest FileReadable MemHonest TypeOK
POSTCONDITION Accepted
CHECK_DEADLOCK FALSE
