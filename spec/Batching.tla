------------------------------ MODULE Batching ------------------------------
(***************************************************************************)
(* How the relayer's submitter groups sequencer blocks into Celestia       *)
(* submissions: relayer/write/mod.rs (BlobSubmitter::run: recv only while  *)
(* no block is pushed back, take() only while no submission is in flight,  *)
(* the pushed-back block is re-added right after a take) and               *)
(* relayer/write/conversion.rs (NextSubmission::try_add commits a candidate *)
(* payload only if its compressed size is within MAX_PAYLOAD_SIZE_BYTES;    *)
(* a block that does not fit even alone is a fatal error; take() moves the  *)
(* whole batch out).                                                        *)
(*                                                                         *)
(* Blocks 1..MaxH arrive in height order (the reader's contract, see        *)
(* Relayer.tla); their sizes are arbitrary.  Size is additive here; the     *)
(* code measures the real compressed candidate, which the trace validation  *)
(* takes from the implementation.                                           *)
(***************************************************************************)
EXTENDS Naturals, Sequences, FiniteSets, SequencesExt, TLC

CONSTANTS MaxH, MaxBytes, Sizes,    \* Sizes: the sizes a block may have
          Log                  \* <<>> when model checking the design; when validating an implementation trace, the
                               \* submissions it made, [heights, bytes] each: what fits is then what the implementation
                               \* found to fit (the compressed size is its business)
NoLog == <<>>

VARIABLES size,      \* [1..MaxH -> Sizes], chosen once
          arrived,   \* blocks 1..arrived were handed to the submitter
          batch,     \* NextSubmission.input: heights, in order
          pending,   \* pending_block: 0 or a height
          inflight,  \* a submission is being sent to Celestia
          subs,      \* the submissions handed to Celestia, in order
          failed     \* the submitter exited: a block too large for any submission
vars == <<size, arrived, batch, pending, inflight, subs, failed>>

RECURSIVE Sum(_)
Sum(s) == IF s = <<>> THEN 0 ELSE size[Head(s)] + Sum(Tail(s))
Fits(s) == IF Log = <<>> THEN Sum(s) <= MaxBytes
           ELSE s = <<>> \/ \E i \in 1..Len(Log) : IsPrefix(s, Log[i].heights)

Init == /\ size \in [1..MaxH -> Sizes] /\ arrived = 0 /\ batch = <<>> /\ pending = 0 /\ inflight = FALSE
        /\ subs = <<>> /\ failed = FALSE

\* add_sequencer_block_to_next_submission(b)
Add(b, cur) == IF Fits(Append(cur, b)) THEN [batch |-> Append(cur, b), pending |-> 0, failed |-> FALSE]
               ELSE IF cur = <<>> THEN [batch |-> cur, pending |-> 0, failed |-> TRUE]       \* OversizedBlock
               ELSE [batch |-> cur, pending |-> b, failed |-> FALSE]                          \* Full: pushed back

\* Some(block) = self.blocks.recv(), if self.has_capacity()
Recv == /\ ~failed /\ pending = 0 /\ arrived < MaxH
        /\ LET r == Add(arrived + 1, batch) IN
           /\ batch' = r.batch /\ pending' = r.pending /\ failed' = r.failed
        /\ arrived' = arrived + 1
        /\ UNCHANGED <<size, inflight, subs>>

\* Some(submission) = self.next_submission.take(), if no submission is in flight
Take == /\ ~failed /\ ~inflight /\ batch # <<>>
        /\ subs' = Append(subs, batch) /\ inflight' = TRUE
        /\ IF pending = 0 THEN /\ batch' = <<>> /\ pending' = 0 /\ failed' = FALSE
           ELSE LET r == Add(pending, <<>>) IN /\ batch' = r.batch /\ pending' = r.pending /\ failed' = r.failed
        /\ UNCHANGED <<size, arrived>>

Done == /\ inflight /\ inflight' = FALSE /\ UNCHANGED <<size, arrived, batch, pending, subs, failed>>

Next == Recv \/ Take \/ Done
Spec == Init /\ [][Next]_vars /\ WF_vars(Next)

-----------------------------------------------------------------------------
(* C12 *)
RECURSIVE Flatten(_)
Flatten(ss) == IF ss = <<>> THEN <<>> ELSE Head(ss) \o Flatten(Tail(ss))
Held == Flatten(subs) \o batch \o (IF pending = 0 THEN <<>> ELSE <<pending>>)
\* every block handed over is in exactly one place, in height order -- unless the submitter exited on an oversized block,
\* which is then the one block not held
ExactlyOnceInOrder == IF failed THEN Held = [i \in 1..(arrived - 1) |-> i]
                      ELSE Held = [i \in 1..arrived |-> i]
SizeBound == \A i \in 1..Len(subs) : Fits(subs[i]) /\ subs[i] # <<>>
BatchFits == Fits(batch)
\* a block is only pushed back when it really does not fit with what is already there
PushedBackForAReason == pending # 0 => ~Fits(Append(batch, pending)) \/ inflight
\* everything that fits is eventually submitted
AllSubmitted == <>(failed \/ Flatten(subs) = [i \in 1..MaxH |-> i])
=============================================================================
