----------------------------- MODULE BlockCache -----------------------------
(***************************************************************************)
(* conductor/src/block_cache.rs: the cache both readers put fetched blocks  *)
(* into and take them out of before handing them to the executor.  It is    *)
(* what turns blocks fetched concurrently, in any order, into the in-order  *)
(* streams Conductor.tla assumes of well-behaved readers.                   *)
(***************************************************************************)
EXTENDS Naturals, Sequences, FiniteSets, TLC, Json

CONSTANTS MaxH, MaxOps

H == 1..MaxH
VARIABLES cache,    \* heights held
          next,     \* next height to yield
          yielded,  \* heights yielded so far, in order
          floors,   \* for every yielded height, the largest drop_obsolete argument seen before it
          floor,    \* the largest drop_obsolete argument so far
          last, ops
vars == <<cache, next, yielded, floors, floor, last, ops>>

Init == /\ cache = {} /\ next \in {1, 2} /\ yielded = <<>> /\ floors = <<>> /\ floor = 0
        /\ last = [op |-> "init"] /\ ops = 0

\* insert(block): refused if older than the next height or already there
Insert(h) ==
  /\ ops < MaxOps /\ ops' = ops + 1
  /\ IF h < next THEN /\ UNCHANGED <<cache, next, yielded, floors, floor>> /\ last' = [op |-> "insert", h |-> h, out |-> "old"]
     ELSE IF h \in cache THEN /\ UNCHANGED <<cache, next, yielded, floors, floor>> /\ last' = [op |-> "insert", h |-> h, out |-> "occupied"]
     ELSE /\ cache' = cache \cup {h} /\ UNCHANGED <<next, yielded, floors, floor>> /\ last' = [op |-> "insert", h |-> h, out |-> "ok"]

\* pop() / next_block(): the block at the next height, if it is there
Pop ==
  /\ ops < MaxOps /\ ops' = ops + 1
  /\ IF next \in cache
       THEN /\ cache' = cache \ {next} /\ next' = next + 1 /\ yielded' = Append(yielded, next) /\ floors' = Append(floors, floor)
            /\ UNCHANGED floor /\ last' = [op |-> "pop", h |-> 0, out |-> next]
       ELSE /\ UNCHANGED <<cache, next, yielded, floors, floor>> /\ last' = [op |-> "pop", h |-> 0, out |-> 0]

\* drop_obsolete(latest): the executor has moved on to `latest` by other means (firm blocks executed first)
DropObsolete(l) ==
  /\ ops < MaxOps /\ ops' = ops + 1
  /\ next' = IF l > next THEN l ELSE next
  /\ cache' = {h \in cache : h >= l}
  /\ floor' = IF l > floor THEN l ELSE floor
  /\ UNCHANGED <<yielded, floors>> /\ last' = [op |-> "drop_obsolete", h |-> l, out |-> "ok"]

Next == (\E h \in H : Insert(h) \/ DropObsolete(h)) \/ Pop
Spec == Init /\ [][Next]_vars

-----------------------------------------------------------------------------
\* blocks come out in strictly increasing height order, none twice
StrictlyIncreasing == \A i \in 1..(Len(yielded) - 1) : yielded[i] < yielded[i + 1]
\* consecutively, except where drop_obsolete moved the cache forward in between
GapsOnlyByDrop == \A i \in 1..(Len(yielded) - 1) :
                     yielded[i + 1] = yielded[i] + 1 \/ (floors[i + 1] > yielded[i] + 1 /\ yielded[i + 1] >= floors[i + 1])
\* nothing below what the executor has already moved past is ever yielded
NeverObsolete == \A i \in 1..Len(yielded) : yielded[i] >= floors[i]
\* the cache holds nothing it could never yield
NothingStale == \A h \in cache : h >= next

Proj(c, n) == [cache |-> c, next |-> n]
LogStep == PrintT(<<"T", ToJson([s |-> Proj(cache, next), a |-> last', t |-> Proj(cache', next')])>>)
=============================================================================
