#!/bin/sh
# Runs the repository's pinned baseline test suite with the verif guard OFF (no --features verif),
# then compares the result with /root/.vp/BASELINE.json stable_pass. Exit 0 iff every stable test passed.
cd /repo || exit 2
OUT=${VERIF_BASELINE_OUT:-/verif/work/baseline}
mkdir -p "$OUT"
if command -v cargo-nextest >/dev/null 2>&1 && [ -f /w/lib/nextest.toml ]; then
  cargo nextest run --workspace --no-fail-fast --tool-config-file pb:/w/lib/nextest.toml --profile pb \
    --test-threads 8 --offline > "$OUT/log.txt" 2>&1
  cp target/nextest/pb/junit.xml "$OUT/junit.xml" 2>/dev/null
  python3 /verif/lib/baseline_cmp.py "$OUT/junit.xml"
else
  cargo test --workspace --no-fail-fast --offline > "$OUT/log.txt" 2>&1
  rc=$?
  grep -E "^test result|FAILED|failed" "$OUT/log.txt" | tail -40
  exit $rc
fi
