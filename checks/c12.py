"""C12 — Relayer batching preserves every block exactly and respects the payload bound.
spec/Batching.tla (the submitter loop: recv while nothing is pushed back, take while nothing is in flight, the
pushed-back block re-added after a take; try_add commits a candidate only within the payload limit) is model checked by
TLC for all block-size vectors within the bounds.  The real Relayer::run is then given block streams with sizes around
the 1 MB limit, several / no rollups and rollup filters; the submissions the fake Celestia receives are validated
against the specification by TLC (spec/BatchingTrace.tla) and decoded by the conductor's own pipeline
(decode_raw_blobs -> verify_metadata -> reconstruct) in a second harness, whose output must be the blocks' data."""
import json
import os
import random
import shutil

import vf

PROP = "C12"
RELAYER_ENTRY = "relayer::write::verif_harness::crash_scenarios"
CONDUCTOR_ENTRY = "celestia::verif_harness::decode_submissions"
LIMIT = 1_000_000
K = 1000


def scenarios(tier, seed):
    rnd = random.Random(seed)
    one = lambda *sizes: {str(i + 1): [[1, s]] for i, s in enumerate(sizes)}
    fixed = [
        {"blocks": one(100, 100, 100, 100, 100, 100), "filter": []},
        {"blocks": one(400 * K, 400 * K, 400 * K, 400 * K), "filter": []},
        {"blocks": one(600 * K, 600 * K, 600 * K), "filter": []},
        {"blocks": one(990 * K, 100, 100, 990 * K), "filter": []},
        {"blocks": one(100, 995 * K, 100), "filter": []},
        {"blocks": one(499 * K, 499 * K, 3 * K, 499 * K), "filter": []},
        {"blocks": {"1": [[1, 200 * K], [2, 200 * K]], "2": [[2, 300 * K], [1, 100], [2, 50]], "3": [], "4": [[3, 10]]}, "filter": []},
        {"blocks": {"1": [[1, 300 * K], [2, 300 * K]], "2": [[2, 600 * K]], "3": [[1, 10], [2, 10]], "4": []}, "filter": [1]},
        {"blocks": {"1": [[1, 10]], "2": [[2, 900 * K]], "3": [[2, 900 * K]], "4": [[1, 20], [1, 20]]}, "filter": [1]},
        {"blocks": {"1": [], "2": [], "3": []}, "filter": []},
        # blocks keep arriving while one is pushed back and a submission is in flight
        {"blocks": one(100, 600 * K, 600 * K, 100, 100), "filter": []},
        {"blocks": one(100, 700 * K, 700 * K, 700 * K, 10), "filter": []},
        {"blocks": one(300 * K, 300 * K, 600 * K, 200 * K, 900 * K, 50), "filter": []},
        # a block that fits nowhere: the submitter must exit rather than drop or split it
        {"blocks": one(100, 1100 * K, 100), "filter": [], "expect_failed": True},
    ]
    n_rand = 6 if tier == "quick" else 60
    for _ in range(n_rand):
        n = rnd.randint(3, 7)
        blocks = {}
        for h in range(1, n + 1):
            ents = []
            for _ in range(rnd.choice([0, 1, 1, 2, 3])):
                ents.append([rnd.randint(1, 3), rnd.choice([10, 1000, 100 * K, 250 * K, 450 * K, 700 * K])])
            if sum(e[1] for e in ents) > 950 * K:
                ents = ents[:1]
            blocks[str(h)] = ents
        fixed.append({"blocks": blocks, "filter": rnd.choice([[], [], [1], [2, 3]])})
    out = []
    for i, s in enumerate(fixed):
        head = len(s["blocks"])
        out.append({"id": i, "head": head, "base": 10, "record_blobs": True, "blocks": s["blocks"], "filter": s["filter"],
                    "expect_failed": s.get("expect_failed", False), "broadcasts": [],
                    "sessions": [{"crash": {"at": "none", "n": 0, "phase": "-"}, "limit_secs": 600}]})
    return out


def run(tier, seed, corrupt=False):
    v = vf.Verdict(PROP, tier, seed)
    vf.sany("Batching.tla")
    vf.sany("BatchingTrace.tla")
    states = transitions = 0
    cfgs = []
    for cfg in (["MC_Batching_q.cfg"] if tier == "quick" else ["MC_Batching_q.cfg", "MC_Batching_t.cfg"]):
        r = vf.run_tlc("Batching.tla", cfg, tag=f"c12-{cfg}", workers=8, timeout=3000)
        if r.violation:
            v.mismatch(f"spec:Batching:{cfg}:{r.violation}", vf.tlc_violation_case(r))
            continue
        vf.require_coverage(r, ["Recv", "Take", "Done"])
        states += r.distinct
        transitions += r.generated
        cfgs.append({"cfg": cfg, "distinct": r.distinct, "generated": r.generated, "wall_s": round(r.wall, 1)})
    scen = scenarios(tier, seed)
    results = vf.run_harness_sharded("astria-sequencer-relayer", RELAYER_ENTRY, scen, tag=f"c12-relayer-{tier}", shards=12,
                                     timeout=3000)
    by_id = {r["i"]: r for r in results}
    if len(by_id) != len(scen):
        raise vf.ToolError(f"relayer harness returned {len(by_id)} results for {len(scen)} scenarios")
    d = vf.workdir("c12", tier, clean=True)
    decode_cases = []
    checked = {"submissions": 0, "blocks": 0, "rollup_views": 0, "traces_accepted": 0}
    divergences = {}
    subs_of = {}
    trace_jobs = []
    for s in scen:
        res = by_id[s["id"]]
        subs = []
        for e in res["events"]:
            # a retry of a submission (the relayer was told of an error or saw a timeout) sends the same blobs again
            if e["ev"] == "broadcast" and not (subs and subs[-1]["heights"] == e["heights"]):
                subs.append(e)
        if corrupt and s["id"] == 1 and len(subs) > 1:
            subs[1]["heights"] = subs[1]["heights"][1:]      # selftest: pretend a block went missing
        subs_of[s["id"]] = subs
        failed = any(o.startswith("exited with error") for o in res["outcomes"])
        detail = {"scenario": s, "submissions": [{k: e[k] for k in ("heights", "compressed_bytes")} for e in subs],
                  "outcomes": res["outcomes"], "harness": "relayer_write::crash_scenarios"}
        # -- the property on the observation
        flat = [h for e in subs for h in e["heights"]]
        want = list(range(1, s["head"] + 1))
        if failed:
            # the relayer stopped at a block that fits nowhere: everything before it must be there, nothing after
            if flat != want[:len(flat)]:
                v.mismatch("batching:observed:ExactlyOnceInOrder", detail)
            if not s["expect_failed"]:
                v.mismatch("batching:observed:unexpected-exit", detail)
        elif flat != want:
            v.mismatch("batching:observed:ExactlyOnceInOrder", detail)
        for e in subs:
            checked["submissions"] += 1
            if e["compressed_bytes"] > LIMIT:
                v.mismatch("batching:observed:SizeBound", detail)
        if s["expect_failed"] and not failed:
            v.mismatch("batching:observed:oversized-block-submitted-or-dropped", detail)
        # -- the observation as a behaviour of the specification
        path = os.path.join(d, f"trace{s['id']}.ndjson")
        with open(path, "w") as f:
            for e in subs:
                f.write(json.dumps({"heights": e["heights"], "bytes": e["compressed_bytes"]}) + "\n")
        if subs:
            trace_jobs.append((s, path, failed, detail))
        # -- what the conductor reads back, per rollup (1..3 and one nobody uses)
        for rollup in (1, 2, 3, 9):
            decode_cases.append({"id": f"{s['id']}:{rollup}", "rollup": rollup,
                                 "blocks": [{"chain_height": b["chain_height"], "hash": b["hash"]} for b in res["expected_blocks"]],
                                 "subs": [{"blobs": e["blobs"]} for e in subs]})
    def validate(job):
        s, path, failed, detail = job
        return job, vf.run_tlc("BatchingTrace.tla", "MC_BatchingTrace.cfg", tag=f"c12-trace-{tier}-{s['id']}", workers=1,
                               env={"VERIF_TRACE": path, "VERIF_HEAD": s["head"], "VERIF_FAILED": "1" if failed else "0"},
                               timeout=900, coverage=False, xmx="1g", small=True)

    from concurrent.futures import ThreadPoolExecutor
    with ThreadPoolExecutor(max_workers=6) as pool:
        for (s, path, failed, detail), r in pool.map(validate, trace_jobs):
            states += r.distinct
            transitions += r.generated
            if r.violation == "NotAccepted":
                checked["traces_accepted"] += 1
            elif r.violation:
                v.mismatch(f"batching:trace:{r.violation}", detail)
            else:
                # not a behaviour of the model; the property itself was judged above
                divergences["trace-rejected"] = divergences.get("trace-rejected", 0) + 1
    dres = vf.run_harness_sharded("astria-conductor", CONDUCTOR_ENTRY, decode_cases, tag=f"c12-conductor-{tier}", shards=12,
                                  timeout=3000)
    dby = {r["i"]: r for r in dres}
    if len(dby) != len(decode_cases):
        raise vf.ToolError(f"conductor harness returned {len(dby)} results for {len(decode_cases)} cases")
    for s in scen:
        res = by_id[s["id"]]
        exp = {b["h"]: b for b in res["expected_blocks"]}
        subs = subs_of[s["id"]]
        for rollup in (1, 2, 3, 9):
            rid = f"{rollup:02x}" * 32
            got = dby[f"{s['id']}:{rollup}"]["subs"]
            checked["rollup_views"] += 1
            for e, g in zip(subs, got):
                detail = {"scenario": s, "rollup": rollup, "submission_heights": e["heights"], "conductor": g,
                          "harness": "conductor_celestia::decode_submissions"}
                if "panic" in g:
                    v.mismatch("batching:decode:panic", detail)
                    continue
                if g["metadata_entries"] != len(e["heights"]) or g["metadata_verified"] != len(e["heights"]):
                    v.mismatch("batching:decode:metadata-lost", detail)
                want = []
                for h in e["heights"]:
                    b = exp[h]
                    listed = rid in b["rollups"]
                    included = listed and (not s["filter"] or rollup in s["filter"])
                    if included:
                        want.append({"chain_height": b["chain_height"], "hash": b["hash"], "txs": b["rollups"][rid]})
                    elif not listed:
                        want.append({"chain_height": b["chain_height"], "hash": b["hash"], "txs": []})
                    # listed but filtered out: the conductor of that rollup cannot use the block (no data was published)
                    checked["blocks"] += 1
                if g["blocks"] != want:
                    v.mismatch("batching:decode:blocks-differ", dict(detail, expected=want))
    # the recorded blobs are large
    shutil.rmtree(vf.workdir("harness", f"c12-relayer-{tier}"), ignore_errors=True)
    for k, n in sorted(divergences.items()):
        vf.log(f"DIVERGENCE (C12 itself holds on what was observed): {k} x{n}")
    run.last_violations = len(v.violations)
    cov = {
        "states": states, "transitions": transitions,
        "traces_validated_against_impl": checked["traces_accepted"],
        "samples": scen[:1],
        "evaluations": checked["submissions"] + checked["blocks"],
        "distinct_nontrivial": len(scen),
        "rule": "block streams (sizes 10 B .. 1.1 MB of incompressible data, 0-3 rollups per block, repeated rollups, "
                "filters) through the real Relayer::run; per scenario: submissions cover the heights exactly once in order, "
                "each compressed payload <= 1,000,000 B, the submission sequence is a behaviour of Batching.tla (TLC), and for "
                "rollups 1, 2, 3 and an unused one the conductor pipeline reconstructs exactly the blocks' data items",
        "checked": checked,
        "model_divergences_not_demanded_by_property": divergences,
        "exhaustive": False,
        "tlc_configs": cfgs,
    }
    return v.finish(cov, assumptions=[
        "blocks reach the submitter in height order (Relayer.tla / C11)",
        "the conductor side is verify_metadata against a CometBFT whose commits sign exactly the blocks' hashes",
        "compression is brotli as configured in astria-core; block data is incompressible noise so sizes are near nominal",
    ])


def replay(path, seed):
    print(open(path).read()[:6000])
    return run("quick", seed)


def selftest(seed):
    rc = run("quick", seed, corrupt=True)
    vf.log(f"selftest: one block removed from a recorded submission -> rc={rc}")
    return 0 if rc == 1 else 2
