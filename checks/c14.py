"""C14 — Validator set given to CometBFT mirrors the application's and is never empty.
spec/Validators.tla (post-Aspen individual storage, the pre-Aspen legacy set, and histories in which the Aspen
upgrade activates at some block boundary and migrates the set) checked by TLC over all blocks of
validator updates within the bounds; transition-covering behaviours are replayed as real blocks through
finalize_block + commit, the harness folding the returned batches into its own CometBFT-style set."""
import re

import vf

PROP = "C14"
CONFIGS = {"quick": [("MC_Validators_post_q.cfg", True), ("MC_Validators_pre_q.cfg", False),
                     ("MC_Validators_mixed_q.cfg", False)],
           "thorough": [("MC_Validators_post_t.cfg", True), ("MC_Validators_pre_t.cfg", False),
                        ("MC_Validators_mixed_t.cfg", False)]}
ENTRY = "app::verif_harness::validators::validators_blocks"


def run(tier, seed):
    v = vf.Verdict(PROP, tier, seed)
    vf.sany("Validators.tla")
    # the intended design: post-Aspen the strict properties hold without any tolerance
    r = vf.run_tlc("Validators.tla", "MC_Validators_strict_post.cfg", tag="c14-strict-post", workers=8, timeout=1200)
    if r.violation:
        v.mismatch(f"spec:Validators:strict_post:{r.violation}", vf.tlc_violation_case(r))
    states, transitions = r.distinct, r.generated
    behaviours = []
    cfgs = []
    for cfg, post in CONFIGS[tier]:
        r = vf.run_tlc("Validators.tla", cfg, tag=f"c14-{cfg}", workers=8, timeout=3000)
        if r.violation:
            v.mismatch(f"spec:Validators:{cfg}:{r.violation}", vf.tlc_violation_case(r))
            continue
        vf.require_coverage(r, [("Update", "Next"), "EndBlock"])
        states += r.distinct
        transitions += r.generated
        trans = vf.dedupe_transitions(r.tlines)
        inits = {vf.canon(t["s"]): t["s"] for t in trans if t["s"]["nblk"] == 0 and not t["s"]["st"]["upd"]}
        for init in inits.values():
            behs, _ = vf.cover_transitions([t for t in trans], init, max_len=60)
            for b in behs:
                # cut after the last end_block: a block is only observable once it ends
                last = max((i for i, t in enumerate(b) if t["a"]["op"] == "end_block"), default=-1)
                if last < 0:
                    continue
                steps = [{"a": t["a"], "t": t["t"], "dev": t["dev"], "post": t["s"]["post"]} for t in b[:last + 1]]
                # a history that crosses the upgrade: Aspen activates at the height of its first post-format block
                aspen_height = None
                if not post and any(s["post"] for s in steps):
                    aspen_height = 1 + sum(1 for s in steps[:next(i for i, s in enumerate(steps) if s["post"])]
                                           if s["a"]["op"] == "end_block")
                behaviours.append({"post_aspen": post, "aspen_height": aspen_height, "genesis": init["st"]["stored"],
                                   "cfg": cfg, "steps": steps})
        cfgs.append({"cfg": cfg, "distinct": r.distinct, "generated": r.generated, "distinct_transitions": len(trans),
                     "wall_s": round(r.wall, 1)})
    # the same block may be covered many times; keep distinct behaviours
    seen = set()
    uniq = []
    for b in behaviours:
        k = vf.canon([b["post_aspen"], b["aspen_height"], b["genesis"], [s["a"] for s in b["steps"]]])
        if k not in seen:
            seen.add(k)
            uniq.append(b)
    import random
    random.Random(seed).shuffle(uniq)
    # keep the histories that cross the upgrade in the sample whatever the shuffle does
    cross = [b for b in uniq if b["aspen_height"] is not None]
    rest = [b for b in uniq if b["aspen_height"] is None]
    behaviours = cross[:200 if tier == "quick" else 3000] + rest[:400 if tier == "quick" else 6000]
    results = vf.run_harness_sharded("astria-sequencer", ENTRY, behaviours, tag=f"c14-{tier}", shards=14,
                                     timeout=3000) if behaviours else []
    if len(results) != len(behaviours):
        raise vf.ToolError(f"harness returned {len(results)} results for {len(behaviours)} behaviours")
    steps = 0
    matched = {}
    for res in results:
        steps += res["steps"]
        for m in res["mismatches"]:
            v.mismatch(m["sig"], {"detail": m["detail"], "harness": "sequencer_app/validators"})
        matched[res["matched"]] = matched.get(res["matched"], 0) + 1
        if res["matched"].startswith("coded:"):
            v.mismatch(f"validators:known-deviation:{res['matched'][6:]}", {"harness": "sequencer_app/validators"})
    blocks = sum(1 for b in behaviours for s in b["steps"] if s["a"]["op"] == "end_block")
    cov = {
        "states": states, "transitions": transitions,
        "traces_validated_against_impl": len(behaviours),
        "samples": behaviours[:1],
        "evaluations": steps,
        "distinct_nontrivial": len(behaviours),
        "rule": "distinct block sequences (genesis set, updates per block, end of block) covering the transitions TLC explored, "
                "each run as real blocks through finalize_block + commit; compared per block: returned update batch, stored "
                "set / count, cleared per-block updates, and the harness's own CometBFT fold of the batches",
        "blocks_executed": blocks,
        "behaviours_crossing_the_aspen_upgrade": sum(1 for b in behaviours if b["aspen_height"] is not None),
        "implementation_matched": matched,
        "exhaustive": False,
        "tlc_configs": cfgs,
    }
    return v.finish(cov, assumptions=[
        "CometBFT applies an update batch as: power 0 removes a validator it must know, other powers set it, result non-empty",
        "every transaction of a block is constructible against the block's start state (CheckTx / ProcessProposal)",
        "no misbehaviour evidence",
    ])


def replay(path, seed):
    print(open(path).read()[:6000])
    return run("quick", seed)


def selftest(seed):
    r = vf.run_tlc("Validators.tla", "MC_Validators_strict_pre.cfg", tag="c14-selftest", workers=4, timeout=600)
    vf.log(f"selftest MC_Validators_strict_pre.cfg: violation={r.violation}")
    return 0 if r.violation == "BatchApplicable" else 2
