"""C09 — Conductor accepts firm data only if >2/3 voting power committed the block.
spec/Quorum.tla: TLC enumerates every (validator powers, commit entries) case and every (commit, metadata
blob, rollup blob) pipeline case within the bounds and checks the decision procedure against the property;
every case is replayed on the real ensure_commit_has_quorum (real ed25519 canonical-vote signatures) and on
the real decode_raw_blobs -> verify_metadata (wiremock CometBFT RPC) -> reconstruct pipeline."""
import json
import re

import vf

PROP = "C09"
ERROR_NAME_ONLY = re.compile(r"quorum:commit:expected=(?!ok:)(\w+):observed=(?!ok$|panic$)(\w+)")
# (config, part, power scales).  i64::MAX = 7 * BIG, so with scale BIG the validator set's total overflows u64
# exactly when the model total exceeds 14 units (PowerCap = 14 in MC_Quorum_overflow.cfg); the other configs keep
# NV * MaxPower <= 14 where BIG is used.
BIG = (2 ** 63 - 1) // 7
CONFIGS = {
    "quick": [("MC_Quorum_commit_q.cfg", "commit", [1, 1000003, BIG]), ("MC_Quorum_commit4_q.cfg", "commit", [1, BIG]),
              ("MC_Quorum_overflow.cfg", "commit", [BIG]), ("MC_Quorum_pipeline.cfg", "pipeline", [1])],
    "thorough": [("MC_Quorum_commit_q.cfg", "commit", [1, 1000003, BIG]), ("MC_Quorum_commit_t.cfg", "commit", [1, 1000003, BIG]),
                 ("MC_Quorum_commit5_t.cfg", "commit", [1, 4294967295 // 5]), ("MC_Quorum_overflow.cfg", "commit", [BIG]),
                 ("MC_Quorum_pipeline.cfg", "pipeline", [1])],
}
ENTRY = {"commit": "celestia::verif_harness::quorum_cases", "pipeline": "celestia::verif_harness::pipeline_cases"}


def run(tier, seed):
    v = vf.Verdict(PROP, tier, seed)
    vf.sany("Quorum.tla")
    states = 0
    cfgs = []
    allcases = {}
    for cfg, part, scales in CONFIGS[tier]:
        r = vf.run_tlc("Quorum.tla", cfg, tag=f"c09-{cfg}", workers=8, timeout=2400, coverage=False)
        if r.violation:
            v.mismatch(f"spec:Quorum:{cfg}:{r.violation}", vf.tlc_violation_case(r))
            continue
        states += r.distinct
        bucket = allcases.setdefault((part, tuple(scales)), {})
        for t in r.tlines:
            bucket.setdefault(vf.canon([t["powers"], t["commit"], t["meta"], t["rblob"], t["junk"]]), t)
        cfgs.append({"cfg": cfg, "distinct": r.distinct, "wall_s": round(r.wall, 1)})
    evaluations = 0
    nontrivial = 0
    divergences = {}
    samples = []
    for (part, scales), cases in allcases.items():
        cases = list(cases.values())
        if not cases:
            continue
        for scale in scales:
            # power scaling: 3*c > 2*t is invariant under multiplying all powers by a constant, so the expected
            # verdicts are unchanged while the implementation's integer arithmetic sees large operands
            results = vf.run_harness_sharded("astria-conductor", ENTRY[part], cases, tag=f"c09-{part}-{tier}-{scale}-{len(cases)}",
                                             shards=14 if part == "commit" else 4, timeout=2400,
                                             env={"VERIF_POWER_SCALE": scale})
            if len(results) != len(cases):
                raise vf.ToolError(f"harness returned {len(results)} results for {len(cases)} cases")
            evaluations += len(results)
            for res in results:
                for m in res["mismatches"]:
                    m["detail"]["power_scale"] = scale
                    # The property is about accepting or not; which error a rejected commit reports is an
                    # implementation detail: recorded, not reported.
                    if ERROR_NAME_ONLY.fullmatch(m["sig"]):
                        divergences[m["sig"]] = divergences.get(m["sig"], 0) + 1
                        continue
                    v.mismatch(m["sig"], {"detail": m["detail"], "harness": "conductor_celestia"})
        nontrivial += sum(1 for c in cases if c["nontrivial"])
        samples += [c for c in cases if c["nontrivial"] and c["verdict"] == "ok"][:1]
        samples += [c for c in cases if c["nontrivial"] and c["verdict"] not in ("ok", "NoQuorum")][:1]
    cov = {
        "states": states, "transitions": states,
        "traces_validated_against_impl": evaluations,
        "samples": samples[:4],
        "evaluations": evaluations,
        "distinct_nontrivial": nontrivial,
        "rule": "cases = TLC states of Quorum.tla: (power vector, commit entries incl. forged / other-block / missing / "
                "duplicate / unknown signers) and (commit, metadata blob class, rollup blob class); each replayed on the real "
                "code (commit cases additionally with all powers scaled); non-trivial = at least one signature entry",
        "exhaustive": True,
        "tlc_configs": cfgs,
        "error_name_divergences_not_demanded_by_property": divergences,
    }
    return v.finish(cov, assumptions=[
        "ed25519 signatures are unforgeable (forged = signed by a key outside the validator set)",
        "the CometBFT RPC the conductor queries is honest (wiremock stands in for it)",
    ])


def replay(path, seed):
    print(open(path).read()[:4000])
    return run("quick", seed)


def selftest(seed):
    ok = True
    for cfg, inv in (("MC_Quorum_mutant_floor.cfg", "AcceptOnlyWithQuorum"), ("MC_Quorum_mutant_dup.cfg", "AcceptOnlyWithQuorum"),
                     ("MC_Quorum_mutant_keep.cfg", "FirmOnlyIfCommitted")):
        r = vf.run_tlc("Quorum.tla", cfg, tag="c09-selftest", workers=4, timeout=600, coverage=False)
        vf.log(f"selftest {cfg}: violation={r.violation}")
        ok = ok and r.violation == inv
    return 0 if ok else 2
