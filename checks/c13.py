"""C13 — Mempool keeps nonce order and never duplicates or silently loses a transaction.
spec/Mempool.tla checked by TLC (all behaviours up to MaxOps operations: inserts with every InsertionError, promotion,
remove_tx_invalid, ageing past the TTL, maintenance with stale removal / expiry / recost / demotion or promotion);
every distinct transition is replayed on the real Mempool inside behaviours from an empty pool, comparing the complete
internal state and the public observers after every step."""
import re

import vf

PROP = "C13"
CONFIGS = {"quick": ["MC_Mempool_q.cfg", "MC_Mempool_q2.cfg", "MC_Mempool_q3.cfg"],
           "thorough": ["MC_Mempool_q.cfg", "MC_Mempool_q2.cfg", "MC_Mempool_q3.cfg", "MC_Mempool_t.cfg"]}
ENTRY = "mempool::verif_harness::replay"


def consts(cfg):
    txt = open(f"{vf.SPEC}/{cfg}").read()
    d = {k: int(v) for k, v in re.findall(r"(\w+) = (\d+)", txt)}
    m = re.search(r"Accts = \{([^}]*)\}", txt)
    d["accts"] = [int(x) for x in m.group(1).split(",")]
    return d


def run(tier, seed):
    v = vf.Verdict(PROP, tier, seed)
    vf.sany("Mempool.tla")
    behaviours = []
    states = transitions = 0
    cfgs = []
    for cfg in CONFIGS[tier]:
        r = vf.run_tlc("Mempool.tla", cfg, tag=f"c13-{cfg}", workers=8, timeout=3000, xmx="16g")
        if r.violation:
            v.mismatch(f"spec:Mempool:{cfg}:{r.violation}", vf.tlc_violation_case(r))
            continue
        vf.require_coverage(r, ["RemoveInvalid", "Age", "Next"])
        states += r.distinct
        transitions += r.generated
        k = consts(cfg)
        na = len(k["accts"])
        init = {"st": {"pending": [[] for _ in range(na)], "parked": [[] for _ in range(na)], "contained": [], "removed": []},
                "fee": 0, "shown": [0] * na, "old": []}
        trans = vf.dedupe_transitions(r.tlines)
        behs, unreachable = vf.cover_transitions(trans, init, max_len=40)
        if unreachable:
            raise vf.ToolError(f"{unreachable} transitions of {cfg} not reachable from the initial projection")
        cap = 1500 if tier == "quick" else 20000
        import random
        random.Random(seed).shuffle(behs)
        for b in behs[:cap]:
            behaviours.append({"accts": k["accts"], "parked_total": k["ParkedTotalLimit"], "cfg": cfg,
                               "steps": [{"a": t["a"], "t": t["t"]} for t in b]})
        cfgs.append({"cfg": cfg, "distinct": r.distinct, "generated": r.generated, "distinct_transitions": len(trans),
                     "behaviours": len(behs), "behaviours_replayed": min(len(behs), cap), "wall_s": round(r.wall, 1)})
    results = vf.run_harness_sharded("astria-sequencer", ENTRY, behaviours, tag=f"c13-{tier}", shards=14,
                                     timeout=3000) if behaviours else []
    if len(results) != len(behaviours):
        raise vf.ToolError(f"harness returned {len(results)} results for {len(behaviours)} behaviours")
    steps = 0
    for res in results:
        steps += res["steps"]
        for m in res["mismatches"]:
            v.mismatch(m["sig"], {"detail": m["detail"], "harness": "sequencer_mempool"})
    covered = set()
    for b in behaviours:
        for s in b["steps"]:
            covered.add(vf.canon([s["a"], s["t"]]))
    cov = {
        "states": states, "transitions": transitions,
        "traces_validated_against_impl": len(behaviours),
        "samples": [behaviours[len(behaviours) // 3]] if behaviours else [],
        "evaluations": steps,
        "distinct_nontrivial": len(covered),
        "rule": "behaviours from the empty pool covering the distinct (state, operation, result, state') transitions TLC "
                "explored (greedy transition tour, capped per tier); every step is executed on the real Mempool and the "
                "complete internal state plus transaction_status / builder_queue / pending_nonce / len compared; "
                "distinct_nontrivial = distinct (operation with arguments, resulting state) pairs replayed",
        "exhaustive": all(c["behaviours"] == c["behaviours_replayed"] for c in cfgs),
        "tlc_configs": cfgs,
    }
    return v.finish(cov, assumptions=[
        "the per-account parked limit is the compile-time constant 15 and is not reached within the bounds (the total "
        "parked limit is); costs are in a single asset",
        "chain nonces shown to the mempool never decrease",
    ])


def replay(path, seed):
    print(open(path).read()[:6000])
    return run("quick", seed)


def selftest(seed):
    ok = True
    for cfg in ("MC_Mempool_mutant_f9.cfg", "MC_Mempool_mutant_f4.cfg"):
        r = vf.run_tlc("Mempool.tla", cfg, tag="c13-selftest", workers=8, timeout=900)
        vf.log(f"selftest {cfg}: violation={r.violation}")
        ok = ok and r.violation == "ExactlyOnePlace"
    return 0 if ok else 2
