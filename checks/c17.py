"""C17 (partial) — Untrusted wire data never panics a decoder; accepted values are self-consistent.
spec/Wire.tla states the decoder contract (bytes -> raw -> value, the only other way out is an error; an accepted value
re-encodes to a message that decodes to the same value with all checks passing) and spans the lattice of
structure-aware mutations of valid protobuf encodings (field path x kind of change).  TLC enumerates the lattice; every
point, and seeded pairs of points, is applied to the encodings of a real signed transaction and of the full, filtered and
Celestia forms of a real finalized block and run through the real decoders (Transaction::try_from_raw,
CheckedTransaction::new, SequencerBlock / FilteredSequencerBlock / SubmittedMetadata / SubmittedRollupData
::try_from_raw) under catch_unwind.  This is an exploration of that lattice, not a decision for all byte strings."""
import random

import vf

PROP = "C17"
ENTRY = "app::verif_harness::wire::wire_cases"


def run(tier, seed, corrupt=False):
    v = vf.Verdict(PROP, tier, seed)
    vf.sany("Wire.tla")
    cfg = "MC_Wire_q.cfg" if tier == "quick" else "MC_Wire_t.cfg"
    r = vf.run_tlc("Wire.tla", cfg, tag=f"c17-{cfg}", workers=8, timeout=3000, coverage=False, xmx="8g")
    if r.violation:
        v.mismatch(f"spec:Wire:{r.violation}", vf.tlc_violation_case(r))
    points = list({vf.canon(t): t for t in r.tlines}.values())
    rnd = random.Random(seed)
    cases = [{"ty": p["ty"], "muts": [{"path": p["path"], "kind": p["kind"]}]} for p in points]
    # pairs: two changes to one message
    n_pairs = 6000 if tier == "quick" else 60000
    by_ty = {}
    for p in points:
        by_ty.setdefault(p["ty"], []).append(p)
    for _ in range(n_pairs):
        ty = rnd.choice(sorted(by_ty))
        a, b = rnd.choice(by_ty[ty]), rnd.choice(by_ty[ty])
        cases.append({"ty": ty, "muts": [{"path": a["path"], "kind": a["kind"]}, {"path": b["path"], "kind": b["kind"]}]})
    for i, c in enumerate(cases):
        c["id"] = i
    results = vf.run_harness_sharded("astria-sequencer", ENTRY, cases, tag=f"c17-{tier}", shards=14, timeout=3000)
    outcomes = {}
    bases = {}
    by_id = {}
    for res in results:
        if isinstance(res["i"], str):
            bases[res["i"]] = res["outcome"]
        else:
            by_id[res["i"]] = res
    if len(by_id) != len(cases):
        raise vf.ToolError(f"harness returned {len(by_id)} results for {len(cases)} cases")
    # the unmutated encodings must be accepted, or nothing below means anything
    for ty in ("tx", "full", "filtered", "filtered_empty", "metadata", "rollupdata"):
        if bases.get(f"base:{ty}") != "value":
            v.mismatch(f"wire:{ty}:valid-encoding-not-accepted", {"outcome": bases.get(f"base:{ty}")})
    applied = 0
    forged = next((c["id"] for c in cases if by_id[c["id"]]["applied"]), None) if corrupt else None
    for c in cases:
        res = by_id[c["id"]]
        o = "forged-panic" if c["id"] == forged else res["outcome"]
        k = f'{c["ty"]}:{o.split(":")[0]}'
        outcomes[k] = outcomes.get(k, 0) + 1
        if not res["applied"]:
            continue
        applied += 1
        if o not in ("error", "value"):
            kinds = "+".join(m["kind"] for m in c["muts"])
            v.mismatch(f'wire:{c["ty"]}:{o.split(":")[0]}', {"case": c, "outcome": o, "bytes": res.get("bytes"), "kinds": kinds,
                                                             "harness": "sequencer_app::wire"})
    cov = {
        "states": r.distinct, "transitions": r.generated,
        "traces_validated_against_impl": applied,
        "samples": cases[:2],
        "evaluations": applied,
        "distinct_nontrivial": applied,
        "rule": "every (type, field path up to depth 3-4 with indices modulo the fields present, kind of change) with kinds "
                "delete / duplicate / swap / truncate / empty / length +-1 / cut / byte flips / varint 0, +1, max, plus seeded "
                "pairs, on 5 valid base encodings; outcome must be error or a self-consistent value",
        "lattice_points": len(points),
        "pairs": n_pairs,
        "outcomes": outcomes,
        "exhaustive": False,
        "tlc_configs": [{"cfg": cfg, "distinct": r.distinct, "wall_s": round(r.wall, 1)}],
    }
    return v.finish(cov, level="exploration", assumptions=[
        "one valid base value per type (a transaction with four actions; a block with two rollups and a deposit)",
        "mutations are structure-aware changes of valid protobuf encodings, not arbitrary byte strings; brotli and the gRPC "
        "framing are not exercised here (malformed blobs: C09)",
    ])


def replay(path, seed):
    print(open(path).read()[:6000])
    return run("quick", seed)


def selftest(seed):
    rc = run("quick", seed, corrupt=True)
    vf.log(f"selftest: one outcome replaced by a panic -> rc={rc}")
    return 0 if rc == 1 else 2
