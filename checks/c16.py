"""C16 — Composer bundles each accepted transaction once, in order, within the size limit.
spec/Composer.tla checked by TLC (all behaviours up to MaxOps operations); every distinct transition
TLC explored is replayed on the real BundleFactory (harness/composer_bundle, in-crate) inside behaviours
that start from a fresh factory, comparing outcome, handed-out bundle and full projected state after
every step."""
import json

import vf

PROP = "C16"
UNIT = 200   # bytes per abstract size unit
CONFIGS = {
    "quick": ["MC_Composer_q.cfg", "MC_Composer_q_cap0.cfg"],
    "thorough": ["MC_Composer_q.cfg", "MC_Composer_q_cap0.cfg", "MC_Composer_t.cfg", "MC_Composer_t_cap1.cfg"],
}
ACTIONS = ["TryPush", "NextFinished", "PopNow"]
INIT = {"curr": [], "finished": [], "n": 0}


def cfg_consts(cfg):
    import re
    txt = open(f"{vf.SPEC}/{cfg}").read()
    return {k: int(v) for k, v in re.findall(r"(\w+) = (\d+)", txt)}


def run(tier, seed):
    v = vf.Verdict(PROP, tier, seed)
    vf.sany("Composer.tla")
    behaviours = []
    states = transitions = 0
    cfgs = []
    for cfg in CONFIGS[tier]:
        r = vf.run_tlc("Composer.tla", cfg, tag=f"c16-{cfg}", workers=8, timeout=1500)
        if r.violation:
            v.mismatch(f"spec:Composer:{cfg}:{r.violation}", vf.tlc_violation_case(r))
            continue
        vf.require_coverage(r, ACTIONS)
        states += r.distinct
        transitions += r.generated
        trans = vf.dedupe_transitions(r.tlines)
        consts = cfg_consts(cfg)
        behs, unreachable = vf.cover_transitions(trans, INIT, max_len=60)
        if unreachable:
            raise vf.ToolError(f"{unreachable} transitions of {cfg} not reachable from the initial projection")
        for b in behs:
            behaviours.append({"max": consts["MaxSize"], "cap": consts["Cap"], "unit": UNIT, "cfg": cfg,
                               "steps": [{"a": t["a"], "t": t["t"], "handed": t["handed"]} for t in b]})
        cfgs.append({"cfg": cfg, "distinct": r.distinct, "generated": r.generated, "distinct_transitions": len(trans),
                     "behaviours": len(behs), "wall_s": round(r.wall, 1)})
    results = vf.run_harness_sharded("astria-composer", "executor::bundle_factory::verif_harness::replay", behaviours,
                                     tag=f"c16-{tier}", shards=12, timeout=1500) if behaviours else []
    if len(results) != len(behaviours):
        raise vf.ToolError(f"harness returned {len(results)} results for {len(behaviours)} behaviours")
    steps = 0
    for res in results:
        steps += res["steps"]
        for m in res["mismatches"]:
            v.mismatch(m["sig"], {"detail": m["detail"], "harness": "composer_bundle"})
    distinct_tr = sum(c["distinct_transitions"] for c in cfgs)
    refusals = sum(1 for b in behaviours for s in b["steps"] if s["a"]["op"] == "push" and s["a"]["out"] != "ok")
    cov = {
        "states": states, "transitions": transitions,
        "traces_validated_against_impl": len(behaviours),
        "samples": [behaviours[len(behaviours) // 2]] if behaviours else [],
        "evaluations": steps,
        "distinct_nontrivial": distinct_tr,
        "rule": "distinct (projected pre-state, operation, outcome, projected post-state) transitions explored by TLC; all of "
                "them are replayed on the real BundleFactory inside behaviours from a fresh factory (greedy transition tour); "
                "evaluations = replayed steps, each compared on outcome, handed-out bundle and full state",
        "refusing_steps_replayed": refusals,
        "exhaustive": True,
        "tlc_configs": cfgs,
    }
    return v.finish(cov, assumptions=["item sizes are multiples of %d bytes (exact encoded_len is constructed and checked)" % UNIT])


def replay(path, seed):
    print(open(path).read()[:4000])
    return run("quick", seed)


def selftest(seed):
    r = vf.run_tlc("Composer.tla", "MC_Composer_mutant.cfg", tag="c16-selftest", workers=4, timeout=600)
    vf.log(f"selftest MC_Composer_mutant.cfg: violation={r.violation}")
    return 0 if r.violation else 2
