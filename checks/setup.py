"""./check setup — validate every spec with SANY and pre-build all harness binaries (offline)."""
import glob
import os

import vf


def run():
    try:
        for spec in sorted(glob.glob(os.path.join(vf.SPEC, "*.tla"))):
            if os.path.basename(spec).startswith("_"):
                continue
            vf.sany(spec)
        vf.log(f"[setup] SANY ok on {len(glob.glob(os.path.join(vf.SPEC, '*.tla')))} modules")
        vf.build_ext(os.path.join(vf.ROOT, "harness", "merkle_ext"), "verif-merkle-ext")
        bins = vf.build_bins(quiet=False)
        vf.log(f"[setup] built {len(bins)} lib test binaries with --features verif")
        return 0
    except vf.ToolError as e:
        print(f"TOOL-ERROR setup: {e}")
        return 2
