"""C04 — Bridge solvency: deposits are backed, withdrawals are paid at most once.
Decided by spec/Ledger.tla (profile "bridge": lock / unlock / bridge-transfer bundles, event ids across action kinds)
and by the receive part of spec/LedgerIbc.tla (deposits for incoming ICS-20 packets)."""
import ibc_common
import ledger_common
import vf

PROP = "C04"


def run(tier, seed):
    v = vf.Verdict(PROP, tier, seed)
    cov, ass1 = ledger_common.run_ledger(PROP, ["bridge", "replay"], tier, seed, verdict=v)
    cov2, ass2 = ibc_common.run_ibc(PROP, tier, seed, profiles=("recv",), only_devs={"F1"}, verdict=v)
    cov["states"] += cov2["states"]
    cov["transitions"] += cov2["transitions"]
    cov["traces_validated_against_impl"] += cov2["traces_validated_against_impl"]
    cov["evaluations"] += cov2["evaluations"]
    cov["distinct_nontrivial"] += cov2["distinct_nontrivial"]
    cov["samples"] += cov2["samples"][:1]
    cov["tlc_configs"] += cov2["tlc_configs"]
    cov["ibc_receive"] = {"by_step_and_outcome": cov2["by_step_and_outcome"], "implementation_matched": cov2["implementation_matched"]}
    cov["rule"] += "; plus the receive cases of LedgerIbc.tla (see C18)"
    return v.finish(cov, assumptions=ass1 + ass2)


def replay(path, seed):
    print(open(path).read()[:6000])
    return run("quick", seed)


def selftest(seed):
    return 0
