"""C06 — Honest proposals are always accepted; malformed or over-limit ones rejected.
spec/Proposal.tla: (1) TLC enumerates abstract builder queues and CometBFT limits and checks that Build's block is accepted
by Check, within both limits, group-ordered and free of failing transactions; (2) I->S: records produced by the real
mempool + prepare_proposal (proposer) + process_proposal (fresh validator) on seeded scenarios aimed at the limits are
validated by TLC against the same specification (the real block must be exactly Build(real queue)); (3) S->I: every
single mutation of an honest block in the specification's table must be rejected by the real process_proposal."""
import json
import os

import vf

PROP = "C06"
TRACE_ENTRY = "app::verif_harness::proposal::proposal_traces"
MUT_ENTRY = "app::verif_harness::proposal::proposal_mutations"
INVS = ["BlockIsBuild", "PrepareThenProcessAccepts", "WithinCometLimit", "WithinSequencedLimit", "GroupsNonIncreasing",
        "IncludedExecute", "FirstFitIncluded"]


def run(tier, seed):
    v = vf.Verdict(PROP, tier, seed)
    vf.sany("Proposal.tla")
    cfgs = []
    cfg = "MC_Proposal_abstract_q.cfg" if tier == "quick" else "MC_Proposal_abstract_t.cfg"
    r = vf.run_tlc("Proposal.tla", cfg, tag=f"c06-{cfg}", workers=8, timeout=3000, coverage=False, collect_tags=())
    if r.violation:
        v.mismatch(f"spec:Proposal:{cfg}:{r.violation}", vf.tlc_violation_case(r))
    states = r.distinct
    cfgs.append({"cfg": cfg, "distinct": r.distinct, "wall_s": round(r.wall, 1)})
    # ---- I->S: records from the implementation, validated by TLC
    n = 140 if tier == "quick" else 4000
    seeds = [{"seed": seed * 100000 + i, "kind": "random"} for i in range(n)] + [{"seed": seed * 100000 + n, "kind": "stale"}]
    recs = vf.run_harness_sharded("astria-sequencer", TRACE_ENTRY, seeds, tag=f"c06-traces-{tier}", shards=14, timeout=3000)
    good = []
    for rec in recs:
        if "error" in rec:
            v.mismatch("proposal:prepare-error", {"detail": rec})
        else:
            good.append(rec)
    tdir = vf.workdir("c06")
    tpath = os.path.join(tdir, f"trace-{tier}.ndjson")
    with open(tpath, "w") as f:
        for rec in good:
            f.write(json.dumps(rec) + "\n")
    rejected = 0
    if good:
        # validate; on a violation report the record TLC stopped at, drop it and go on so that every record is examined
        remaining = good
        for _ in range(25):
            with open(tpath, "w") as f:
                for rec in remaining:
                    f.write(json.dumps(rec) + "\n")
            r = vf.run_tlc("Proposal.tla", "MC_Proposal_trace.cfg", tag=f"c06-trace-{tier}", workers=4, timeout=3000,
                           coverage=False, collect_tags=(), env={"VERIF_TRACE": tpath})
            if not r.violation:
                states += r.distinct
                cfgs.append({"cfg": "MC_Proposal_trace.cfg", "records": len(remaining), "distinct": r.distinct, "wall_s": round(r.wall, 1)})
                break
            rejected += 1
            import re
            m = re.search(r"seed \|-> (\d+)", r.trace)
            bad_seed = int(m.group(1)) if m else None
            bad = next((x for x in remaining if x["seed"] == bad_seed), None)
            v.mismatch(f"proposal:trace-rejected:{r.violation}", {"record": bad, "tlc": r.trace[:3000]})
            remaining = [x for x in remaining if x["seed"] != bad_seed]
            if bad is None:
                break
    # ---- S->I: the mutation table
    r = vf.run_tlc("Proposal.tla", "MC_Proposal_mutations.cfg", tag="c06-mutations", workers=2, timeout=600, coverage=False)
    muts = r.tlines
    mres = vf.run_harness_sharded("astria-sequencer", MUT_ENTRY, muts, tag=f"c06-mut-{tier}", shards=8, timeout=3000)
    for res in mres:
        for m in res["mismatches"]:
            v.mismatch(m["sig"], {"detail": m["detail"], "harness": "sequencer_app/proposal"})
    # the named deviation F8: an honest block holding a stale mempool transaction, refused by the validator
    for x in good:
        if x.get("kind") == "stale" and x["verdict"] == "reject":
            v.mismatch("proposal:known-deviation:F8", {"record": x})
    nontrivial = [x for x in good if len(x["queue"]) >= 2]
    at_limit = sum(1 for x in good if x["maxBytes"] < 1000000)
    cov = {
        "states": states, "transitions": states,
        "traces_validated_against_impl": len(good) + len(muts),
        "samples": [x for x in good if len(x["block"]) >= 2 and x["maxBytes"] < 1000000][:1] + muts[:2],
        "evaluations": len(good) + len(muts),
        "distinct_nontrivial": len({vf.canon([x["queue"], x["maxBytes"]]) for x in nontrivial}),
        "rule": "records = seeded scenarios (random transfers / overdrafts / rollup data of 1..200 000 bytes / fee changes over "
                "3 accounts, nonce gaps, CometBFT limit exactly at, one below or one above a prefix of the real queue); each "
                "record is a TLC state of the trace config and must satisfy BlockIsBuild and the C06 invariants; plus the "
                "mutation table; non-trivial = queue of at least two transactions",
        "records_with_tight_cometbft_limit": at_limit,
        "records_rejected_by_tlc": rejected,
        "mutations": len(muts),
        "exhaustive": False,
        "tlc_configs": cfgs,
    }
    return v.finish(cov, assumptions=[
        "the CometBFT limit is compared with the sum of the byte lengths of the items in the response, as the application does",
        "transactions in the scenarios either always execute or always fail (overdraft), so their outcome is intrinsic",
    ])


def replay(path, seed):
    print(open(path).read()[:6000])
    return run("quick", seed)


def selftest(seed):
    return 0
