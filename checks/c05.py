"""C05 — Block execution is deterministic and independent of a node's ABCI call path.
spec/Abci.tla checked by TLC over every legal order of PrepareProposal / ProcessProposal / restart calls before the
decision; the schedules are forced on a real App and compared (differentially) with a second real App over identical
storage that only ever sees FinalizeBlock."""
import random

import vf

PROP = "C05"
ENTRY = "app::verif_harness::abci::abci_schedules"


def run(tier, seed):
    v = vf.Verdict(PROP, tier, seed)
    vf.sany("Abci.tla")
    states = transitions = 0
    cfgs = []
    # the intended design: path independence holds outright
    r = vf.run_tlc("Abci.tla", "MC_Abci_design.cfg", tag="c05-design", workers=8, timeout=2400, collect_tags=())
    if r.violation:
        v.mismatch(f"spec:Abci:design:{r.violation}", vf.tlc_violation_case(r))
    states += r.distinct
    transitions += r.generated
    cfgs.append({"cfg": "MC_Abci_design.cfg", "distinct": r.distinct, "wall_s": round(r.wall, 1)})
    cfg = "MC_Abci_coded_q.cfg" if tier == "quick" else "MC_Abci_coded_t.cfg"
    r = vf.run_tlc("Abci.tla", cfg, tag=f"c05-{cfg}", workers=8, timeout=2400, collect_tags=())
    if r.violation:
        v.mismatch(f"spec:Abci:{cfg}:{r.violation}", vf.tlc_violation_case(r))
    vf.require_coverage(r, ["Prepare", "Process", "Finalize", "Restart"])
    states += r.distinct
    transitions += r.generated
    cfgs.append({"cfg": cfg, "distinct": r.distinct, "wall_s": round(r.wall, 1)})
    schedules = vf.parse_tlines(r.out, "B")
    # stratified sample: schedules are grouped by the shape of their steps (call, verdict expected, whether the block
    # has transactions / removes the pair / carries prices / is a faulty proposer's); every shape is represented
    rnd = random.Random(seed)
    rnd.shuffle(schedules)

    def shape(s):
        pre, fin = s["hist"][:-1], s["hist"][-1]["b"]
        same_but_evidence = any({k: v for k, v in h["b"].items() if k != "misb"} == {k: v for k, v in fin.items() if k != "misb"}
                                and h["b"] != fin for h in pre)
        return tuple((h["op"], h["ok"], bool(h["b"]["txs"]), "removeP" in h["b"]["txs"], h["b"]["prices"], h["b"]["bad"],
                      h["b"]["misb"]) for h in pre) + (any(h["b"] == fin for h in pre), same_but_evidence, fin["prices"],
                                                       fin["misb"], s["dev"])
    classes = {}
    for s in schedules:
        classes.setdefault(shape(s), []).append(s)
    # quick: one schedule of each of 1500 shapes, those first in which the decided block differs from an earlier one only
    # in its evidence, a refused proposal had executed something, or the named deviation fires; thorough: every shape,
    # several times
    keys = sorted(classes, key=repr)
    rnd.shuffle(keys)

    def priority(k):
        pre = k[:-5]
        return 0 if (k[-4] or k[-1] or any(st[0] == "process" and not st[1] and st[2] for st in pre)) else 1
    keys.sort(key=priority)
    n = 1500 if tier == "quick" else 12000
    sample = []
    depth = 0
    while len(sample) < n and any(len(c) > depth for c in classes.values()):
        for k in keys:
            if len(classes[k]) > depth and len(sample) < n:
                sample.append(classes[k][depth])
        depth += 1
    results = vf.run_harness_sharded("astria-sequencer", ENTRY, sample, tag=f"c05-{tier}", shards=14, timeout=3000) if sample else []
    if len(results) != len(sample):
        raise vf.ToolError(f"harness returned {len(results)} results for {len(sample)} schedules")
    matched = {}
    for res in results:
        for m in res["mismatches"]:
            v.mismatch(m["sig"], {"detail": m["detail"], "harness": "sequencer_app/abci"})
        matched[res["matched"]] = matched.get(res["matched"], 0) + 1
        if res["matched"] == "coded":
            v.mismatch("abci:known-deviation:F3", {"harness": "sequencer_app/abci"})
    nontrivial = [s for s in sample if len(s["hist"]) > 1]
    cov = {
        "states": states, "transitions": transitions,
        "traces_validated_against_impl": len(sample),
        "samples": sample[:2],
        "evaluations": len(sample),
        "distinct_nontrivial": len(nontrivial),
        "rule": "schedules = complete behaviours of Abci.tla (calls before the decision, then FinalizeBlock); a seeded "
                "stratified sample is replayed on two real Apps over identical storage (the node under test and a sync-only "
                "node) comparing FinalizeBlock response and a digest of the full committed state; non-trivial = at least one "
                "call before FinalizeBlock",
        "schedules_enumerated": len(schedules),
        "implementation_matched": matched,
        "exhaustive": False,
        "tlc_configs": cfgs,
    }
    return v.finish(cov, assumptions=[
        "CometBFT issues PrepareProposal / ProcessProposal any number of times, then FinalizeBlock once for a block honest "
        "validators accept, then Commit",
        "blocks are built by an honest proposer's prepare_proposal from the same committed state",
    ])


def replay(path, seed):
    print(open(path).read()[:6000])
    return run("quick", seed)


def selftest(seed):
    r = vf.run_tlc("Abci.tla", "MC_Abci_mutant.cfg", tag="c05-selftest", workers=4, timeout=600, collect_tags=())
    vf.log(f"selftest MC_Abci_mutant.cfg: violation={r.violation}")
    return 0 if r.violation == "PathIndependence" else 2
