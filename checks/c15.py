"""C15 — Oracle prices need >2/3 validly signed extensions and stay within the reported range.
spec/Oracle.tla: TLC enumerates every extended-commit case within the bounds (all per-validator entry kinds incl.
forged / wrongly attributed / missing signatures, oversized and too many prices, nil votes with extension or signature,
duplicate and unknown signers, every relation to the previous commit) and every small price vector for the median, and
checks the transcribed procedure against the property; each case is replayed on the real
ProposalHandler::validate_proposal with real signatures and on calculate_prices_from_vote_extensions."""
import vf

PROP = "C15"
CONFIGS = {"quick": ["MC_Oracle_votes_q.cfg", "MC_Oracle_lastcommit.cfg", "MC_Oracle_median.cfg"],
           "thorough": ["MC_Oracle_votes_q.cfg", "MC_Oracle_votes_t.cfg", "MC_Oracle_lastcommit.cfg", "MC_Oracle_median.cfg"]}
ENTRY = "app::verif_harness::oracle::oracle_cases"


def run(tier, seed):
    v = vf.Verdict(PROP, tier, seed)
    vf.sany("Oracle.tla")
    cases = {}
    states = 0
    cfgs = []
    for cfg in CONFIGS[tier]:
        r = vf.run_tlc("Oracle.tla", cfg, tag=f"c15-{cfg}", workers=8, timeout=3000, coverage=False)
        if r.violation:
            v.mismatch(f"spec:Oracle:{cfg}:{r.violation}", vf.tlc_violation_case(r))
            continue
        states += r.distinct
        for t in r.tlines:
            cases.setdefault(vf.canon([t["part"], t["powers"], t["votes"], t["lc"], t["prices"]]), t)
        cfgs.append({"cfg": cfg, "distinct": r.distinct, "wall_s": round(r.wall, 1)})
    cases = list(cases.values())
    results = vf.run_harness_sharded("astria-sequencer", ENTRY, cases, tag=f"c15-{tier}", shards=14, timeout=3000) if cases else []
    if len(results) != len(cases):
        raise vf.ToolError(f"harness returned {len(results)} results for {len(cases)} cases")
    for res in results:
        for m in res["mismatches"]:
            v.mismatch(m["sig"], {"detail": m["detail"], "harness": "sequencer_app/oracle"})
    nontrivial = [c for c in cases if c["part"] == "median" or any(e["kind"] not in ("absent", "nil") for e in c["votes"])]
    accept = sum(1 for c in cases if c["part"] != "median" and c["verdict"] == "accept")
    cov = {
        "states": states, "transitions": states,
        "traces_validated_against_impl": len(cases),
        "samples": [c for c in cases if c["part"] == "votes" and c["verdict"] == "accept"][:1]
                   + [c for c in cases if c["part"] == "votes" and c["verdict"] == "bad_signature"][:1]
                   + [c for c in cases if c["part"] == "median"][:1],
        "evaluations": len(cases),
        "distinct_nontrivial": len(nontrivial),
        "rule": "cases = TLC states of Oracle.tla (power vector x per-validator entry kinds x extra duplicate / unknown entry; "
                "extended commit x relation to the last commit; price vectors of length 1..4 over -3..3, also scaled to ~i128::MAX/3); "
                "non-trivial = at least one commit-flagged entry, or a median case",
        "accepting_cases": accept,
        "exhaustive": True,
        "tlc_configs": cfgs,
    }
    return v.finish(cov, assumptions=[
        "ed25519 unforgeability (forged = signed by a key outside the validator set; other = another validator's key)",
        "the currency-pair mapping attached by an honest proposer (obtained from the code's prepare_proposal)",
    ])


def replay(path, seed):
    print(open(path).read()[:6000])
    return run("quick", seed)


def selftest(seed):
    r = vf.run_tlc("Oracle.tla", "MC_Oracle_mutant_median.cfg", tag="c15-selftest", workers=4, timeout=900, coverage=False)
    vf.log(f"selftest MC_Oracle_mutant_median.cfg: violation={r.violation}")
    return 0 if r.violation == "MedianInRange" else 2
