"""Shared driver for the properties decided by spec/Ledger.tla (C01-C04): TLC on the profile's configs, then
replay of every exported transition on the real App (harness/sequencer_app/ledger.rs)."""
import json
import os

import vf

ALL_PROPS = ["Conservation", "FeesExact", "FeesAccumulate", "FeesRouted", "DebitAuthorised", "PrivilegedChange",
             "Atomic", "NonceStep", "DepositsBacked", "WithdrawalOnce"]
ENTRY = "app::verif_harness::ledger::ledger_transitions"
BLOCK_ENTRY = "app::verif_harness::ledger::ledger_blocks"


def chain_blocks(tlines):
    """Simulation output (one worker) lists the steps of each behaviour in order: cut it into blocks
    tx ... tx end_block whose transactions are all constructible at the block's start state."""
    blocks = []
    cur = None
    for t in tlines:
        a = t["a"]
        if cur is not None and vf.canon(t["s"]) != cur["at"]:
            cur = None
        if cur is None:
            cur = {"s0": t["s"], "steps": [], "at": vf.canon(t["s"]), "ok": True}
        if a["op"] == "tx":
            # an honest block holds only transactions that execute (ProcessProposal rejects the others)
            if a["out"] != "ok":
                cur["ok"] = False
            cur["steps"].append({"a": a, "t": t["t"]})
            cur["at"] = vf.canon(t["t"])
        elif a["op"] == "end_block":
            if cur["ok"] and cur["steps"]:
                blocks.append({"s0": cur["s0"], "steps": cur["steps"], "final": t["t"]})
            cur = None
    return blocks


def tx_sig(t):
    a = t["a"]
    if a["op"] != "tx":
        return a["op"]
    return "+".join(x["k"] for x in a["tx"]["acts"])


def nontrivial(t):
    """ok outcome, or a failure at execution (after construction succeeded: fees / later actions / stale checks)."""
    a = t["a"]
    return a["op"] == "end_block" or a["out"] in ("ok", "fail_exec") or a["stale"]


def run_ledger(prop, profiles, tier, seed, rule_extra="", verdict=None):
    v = verdict or vf.Verdict(prop, tier, seed)
    vf.sany("Ledger.tla")
    states = transitions = 0
    cfgs = []
    trans = {}
    for p in profiles:
        runs = [(f"MC_Ledger_{p}_q.cfg", {}, True)]
        sim_n = 300 if tier == "quick" else 3000
        runs.append((f"MC_Ledger_{p}_sim.cfg", {"simulate": sim_n, "depth": 4, "seed": seed}, True))
        if tier == "thorough":
            runs.append((f"MC_Ledger_{p}_t.cfg", {}, False))
        for cfg, kw, logged in runs:
            r = vf.run_tlc("Ledger.tla", cfg, tag=f"{prop}-{cfg}", workers=8, timeout=3000, xmx="12g", **kw)
            if r.violation:
                v.mismatch(f"spec:Ledger:{cfg}:{r.violation}", vf.tlc_violation_case(r))
                continue
            if "simulate" not in kw:
                vf.require_coverage(r, ["ExecTx", "EndBlock"] if False else [])
                states += r.distinct
                transitions += r.generated
            n0 = len(trans)
            if logged:
                for t in r.tlines:
                    if any(t["s"].get(f) or (isinstance(t["sc"], dict) and t["sc"].get(f)) for f in ("pairAdded", "marketAdded")):
                        continue     # a pre-state with the oracle pair already added is not materialised (block replay covers it)
                    trans.setdefault((vf.canon(t["s"]), vf.canon(t["sc"]), vf.canon(t["a"])), t)
            cfgs.append({"cfg": cfg, "mode": "simulate" if "simulate" in kw else "exhaustive", "distinct": r.distinct,
                         "generated": r.generated, "new_distinct_transitions": len(trans) - n0, "wall_s": round(r.wall, 1)})
    # ---- whole blocks through the real finalize_block + commit (every tx constructed against the block start state)
    blocks = []
    for p in profiles:
        cfg = f"MC_Ledger_{p}_blocks.cfg"
        r = vf.run_tlc("Ledger.tla", cfg, tag=f"{prop}-{cfg}", workers=1, timeout=3000, xmx="8g",
                       simulate=4000 if tier == "quick" else 12000, depth=4, seed=seed)
        if r.violation:
            v.mismatch(f"spec:Ledger:{cfg}:{r.violation}", vf.tlc_violation_case(r))
            continue
        blocks += chain_blocks(r.tlines)
        cfgs.append({"cfg": cfg, "mode": "simulate", "generated": r.generated, "blocks": len(blocks), "wall_s": round(r.wall, 1)})
    seen = set()
    uniq = []
    for b in blocks:
        k = vf.canon([b["s0"], [st["a"] for st in b["steps"]]])
        if k not in seen:
            seen.add(k)
            uniq.append(b)
    blocks = uniq[:120 if tier == "quick" else 2500]
    bres = vf.run_harness_sharded("astria-sequencer", BLOCK_ENTRY, blocks, tag=f"{prop}-blocks-{tier}", shards=14,
                                  timeout=3000) if blocks else []
    if len(bres) != len(blocks):
        raise vf.ToolError(f"block harness returned {len(bres)} results for {len(blocks)} blocks")
    for res in bres:
        for m in res["mismatches"]:
            v.mismatch(m["sig"], {"detail": m["detail"], "harness": "sequencer_app/ledger(blocks)"})
    cases = list(trans.values())
    results = vf.run_harness_sharded("astria-sequencer", ENTRY, cases, tag=f"{prop}-{tier}", shards=14,
                                     timeout=3000) if cases else []
    if len(results) != len(cases):
        raise vf.ToolError(f"harness returned {len(results)} results for {len(cases)} cases")
    for res in results:
        for m in res["mismatches"]:
            v.mismatch(m["sig"], {"detail": m["detail"], "harness": "sequencer_app/ledger"})
    nt = [c for c in cases if nontrivial(c)]
    by_out = {}
    for c in cases:
        k = c["a"].get("out", "ok") if c["a"]["op"] == "tx" else "end_block"
        by_out[k] = by_out.get(k, 0) + 1
    samples = []
    for want in ("ok", "fail_exec"):
        c = next((c for c in cases if c["a"]["op"] == "tx" and c["a"]["out"] == want and len(c["a"]["tx"]["acts"]) > 1), None)
        if c:
            samples.append({"tx": c["a"]["tx"], "stale": c["a"]["stale"], "out": c["a"]["out"], "charged": c["charged"],
                            "pre_state": c["s"], "post_state": c["t"]})
    if not samples and cases:
        samples.append(cases[0])
    cov = {
        "states": states, "transitions": transitions,
        "traces_validated_against_impl": len(cases) + len(blocks),
        "blocks_through_finalize_block": len(blocks),
        "samples": samples[:2],
        "evaluations": len(cases),
        "distinct_nontrivial": len(nt),
        "rule": "distinct (pre-state, construction state, transaction, outcome) transitions of Ledger.tla: all transitions of "
                "the exhaustive 1-transaction config plus those met by TLC simulation of 2-transaction blocks (stale "
                "transactions, fee changes inside a block, end of block); each is replayed on the real App by materialising "
                "the pre-state, building the signed transaction, executing it, and comparing outcome, fee events, block-"
                "ephemeral accumulators and the complete raw state dump; non-trivial = executes successfully, fails during "
                "execution, is stale, or is the end of a block" + rule_extra,
        "by_outcome": by_out,
        "properties_checked_by_tlc": ALL_PROPS,
        "exhaustive": False,
        "tlc_configs": cfgs,
    }
    assumptions = [
        "cnidarium StateDelta semantics (nested delta applied only on success)",
        "amounts of asset `big` are scaled by floor(u128::MAX / 3) so that model overflow == u128 overflow",
        "the genesis used by the harness (no fees except fee_change, nria the only fee asset, no bridge accounts)",
    ]
    if verdict is not None:
        return cov, assumptions
    return v.finish(cov, assumptions=assumptions)
