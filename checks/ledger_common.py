"""Shared driver for the properties decided by spec/Ledger.tla (C01-C04): TLC on the profile's configs, then
replay of every exported transition on the real App (harness/sequencer_app/ledger.rs)."""
import json
import os

import vf

ALL_PROPS = ["Conservation", "FeesExact", "FeesAccumulate", "FeesRouted", "DebitAuthorised", "PrivilegedChange",
             "Atomic", "NonceStep", "DepositsBacked", "WithdrawalOnce"]
ENTRY = "app::verif_harness::ledger::ledger_transitions"


def tx_sig(t):
    a = t["a"]
    if a["op"] != "tx":
        return a["op"]
    return "+".join(x["k"] for x in a["tx"]["acts"])


def nontrivial(t):
    """ok outcome, or a failure at execution (after construction succeeded: fees / later actions / stale checks)."""
    a = t["a"]
    return a["op"] == "end_block" or a["out"] in ("ok", "fail_exec") or a["stale"]


def run_ledger(prop, profiles, tier, seed, rule_extra="", verdict=None):
    v = verdict or vf.Verdict(prop, tier, seed)
    vf.sany("Ledger.tla")
    states = transitions = 0
    cfgs = []
    trans = {}
    for p in profiles:
        runs = [(f"MC_Ledger_{p}_q.cfg", {}, True)]
        sim_n = 300 if tier == "quick" else 20000
        runs.append((f"MC_Ledger_{p}_sim.cfg", {"simulate": sim_n, "depth": 4, "seed": seed}, True))
        if tier == "thorough":
            runs.append((f"MC_Ledger_{p}_t.cfg", {}, False))
        for cfg, kw, logged in runs:
            r = vf.run_tlc("Ledger.tla", cfg, tag=f"{prop}-{cfg}", workers=8, timeout=3000, xmx="12g", **kw)
            if r.violation:
                v.mismatch(f"spec:Ledger:{cfg}:{r.violation}", vf.tlc_violation_case(r))
                continue
            if "simulate" not in kw:
                vf.require_coverage(r, ["ExecTx", "EndBlock"] if False else [])
                states += r.distinct
                transitions += r.generated
            n0 = len(trans)
            if logged:
                for t in r.tlines:
                    trans.setdefault((vf.canon(t["s"]), vf.canon(t["sc"]), vf.canon(t["a"])), t)
            cfgs.append({"cfg": cfg, "mode": "simulate" if "simulate" in kw else "exhaustive", "distinct": r.distinct,
                         "generated": r.generated, "new_distinct_transitions": len(trans) - n0, "wall_s": round(r.wall, 1)})
    cases = list(trans.values())
    results = vf.run_harness_sharded("astria-sequencer", ENTRY, cases, tag=f"{prop}-{tier}", shards=14,
                                     timeout=3000) if cases else []
    if len(results) != len(cases):
        raise vf.ToolError(f"harness returned {len(results)} results for {len(cases)} cases")
    for res in results:
        for m in res["mismatches"]:
            v.mismatch(m["sig"], {"detail": m["detail"], "harness": "sequencer_app/ledger"})
    nt = [c for c in cases if nontrivial(c)]
    by_out = {}
    for c in cases:
        k = c["a"].get("out", "ok") if c["a"]["op"] == "tx" else "end_block"
        by_out[k] = by_out.get(k, 0) + 1
    samples = []
    for want in ("ok", "fail_exec"):
        c = next((c for c in cases if c["a"]["op"] == "tx" and c["a"]["out"] == want and len(c["a"]["tx"]["acts"]) > 1), None)
        if c:
            samples.append({"tx": c["a"]["tx"], "stale": c["a"]["stale"], "out": c["a"]["out"], "charged": c["charged"],
                            "pre_state": c["s"], "post_state": c["t"]})
    if not samples and cases:
        samples.append(cases[0])
    cov = {
        "states": states, "transitions": transitions,
        "traces_validated_against_impl": len(cases),
        "samples": samples[:2],
        "evaluations": len(cases),
        "distinct_nontrivial": len(nt),
        "rule": "distinct (pre-state, construction state, transaction, outcome) transitions of Ledger.tla: all transitions of "
                "the exhaustive 1-transaction config plus those met by TLC simulation of 2-transaction blocks (stale "
                "transactions, fee changes inside a block, end of block); each is replayed on the real App by materialising "
                "the pre-state, building the signed transaction, executing it, and comparing outcome, fee events, block-"
                "ephemeral accumulators and the complete raw state dump; non-trivial = executes successfully, fails during "
                "execution, is stale, or is the end of a block" + rule_extra,
        "by_outcome": by_out,
        "properties_checked_by_tlc": ALL_PROPS,
        "exhaustive": False,
        "tlc_configs": cfgs,
    }
    assumptions = [
        "cnidarium StateDelta semantics (nested delta applied only on success)",
        "amounts of asset `big` are scaled by floor(u128::MAX / 3) so that model overflow == u128 overflow",
        "the genesis used by the harness (no fees except fee_change, nria the only fee asset, no bridge accounts)",
    ]
    if verdict is not None:
        return cov, assumptions
    return v.finish(cov, assumptions=assumptions)
