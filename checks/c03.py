"""C03 — decided by spec/Ledger.tla (profile "atomic"); see checks/ledger_common.py and DESIGN.md section 5.3."""
import ledger_common

PROP = "C03"
PROFILES = ["atomic", "replay"]


def run(tier, seed):
    return ledger_common.run_ledger(PROP, PROFILES, tier, seed)


def replay(path, seed):
    print(open(path).read()[:6000])
    return run("quick", seed)


def selftest(seed):
    return 0
