"""C10 — The conductor executes each rollup height exactly once, in order, on top of the block it executed before.
spec/Conductor.tla (the executor's event loop: biased select, spread gate, execute_soft, execute_firm, the cache of
soft-executed blocks, restart on a new session) is checked by TLC for all three commit levels; every transition TLC
explored is replayed on the real `Initialized` executor against an in-process rollup speaking real gRPC, and batched
behaviours are run through the real `run_event_loop`."""
import random

import vf

PROP = "C10"
MODES = {"saf": ("SoftAndFirm", 2), "soft": ("SoftOnly", 2), "firm": ("FirmOnly", 2)}
TIERS = {
    "quick": {"step": [("MC_Conductor_saf_q.cfg", "SoftAndFirm", 2), ("MC_Conductor_soft_q.cfg", "SoftOnly", 2),
                       ("MC_Conductor_firm_q.cfg", "FirmOnly", 2)],
              "loop": [("MC_Conductor_saf_loop_q.cfg", "SoftAndFirm", 2, 260), ("MC_Conductor_soft_loop_q.cfg", "SoftOnly", 2, 60),
                       ("MC_Conductor_firm_loop_q.cfg", "FirmOnly", 2, 60)]},
    "thorough": {"step": [("MC_Conductor_saf_t.cfg", "SoftAndFirm", 3), ("MC_Conductor_soft_t.cfg", "SoftOnly", 3),
                          ("MC_Conductor_firm_t.cfg", "FirmOnly", 3), ("MC_Conductor_saf_q.cfg", "SoftAndFirm", 2)],
                 "loop": [("MC_Conductor_saf_loop_q.cfg", "SoftAndFirm", 2, 4000), ("MC_Conductor_soft_loop_q.cfg", "SoftOnly", 2, 431),
                          ("MC_Conductor_firm_loop_q.cfg", "FirmOnly", 2, 421)]},
}
STEP_ENTRY = "executor::verif_harness::transitions"
LOOP_ENTRY = "executor::verif_harness::behaviours"
INVS = ["OncePerHeightInOrder", "ParentChain", "CommitMonotone", "FirmLeSoft", "FirmNamesExecuted", "PendingWithin",
        "NeverExecutesOutOfOrder"]


def norm_rpc(x):
    return [list(e) for e in x]


def compare_step(c, res):
    """List of (field, expected, got) differences between a spec transition and what the executor did."""
    s, a, t = c["s"], c["a"], c["t"]
    diffs = []
    exp_result = "error" if a["out"] == "error" else "ok"
    got_result = res["result"].split(":")[0]
    if exp_result != got_result:
        diffs.append(("result", exp_result, res["result"][:200]))
    for f in ("soft", "firm"):
        if res["after"][f] != t[f]:
            diffs.append((f, t[f], res["after"][f]))
    if sorted(res["after"]["pending"]) != sorted(t["pending"]):
        diffs.append(("pending", sorted(t["pending"]), res["after"]["pending"]))
    if res["before"]["spread"] != s["spread"]:
        diffs.append(("spread_before", s["spread"], res["before"]["spread"]))
    if res["after"]["spread"] != t["spread"]:
        diffs.append(("spread_after", t["spread"], res["after"]["spread"]))
    if norm_rpc(res["rpc"]) != norm_rpc(a["new"]):
        diffs.append(("rpc", norm_rpc(a["new"]), res["rpc"]))
    return diffs


def compare_settle(exp, got):
    diffs = []
    for f in ("soft", "firm", "dead", "softLeft", "firmLeft"):
        if exp[f] != got[f]:
            diffs.append((f, exp[f], got[f]))
    if sorted(exp["pending"]) != sorted(got["pending"]):
        diffs.append(("pending", sorted(exp["pending"]), got["pending"]))
    if norm_rpc(exp["rpc"]) != norm_rpc(got["rpc"]):
        diffs.append(("rpc", norm_rpc(exp["rpc"]), got["rpc"]))
    if got.get("load_errors"):
        diffs.append(("delivery", [], got["load_errors"]))
    return diffs


def property_violations(soft, firm, top, rpcs, delivered_firm):
    """Evaluate C10 on the RPCs a rollup saw.  soft/firm: the commitments before; top: the highest height executed before;
    delivered_firm: heights of firm blocks handed to the executor.  Returns (violated clauses, soft, firm, top)."""
    bad = []
    for e in rpcs:
        kind = e[0]
        if kind == "exec":
            h, parent = e[1], e[2]
            if h != top + 1:
                bad.append("OncePerHeightInOrder")
            elif parent != h - 1:
                bad.append("ParentChain")
            top = max(top, h)
        elif kind == "commit":
            sft, frm = e[1], e[2]
            if sft < soft or frm < firm:
                bad.append("CommitMonotone")
            if frm > sft:
                bad.append("FirmLeSoft")
            if sft > top or frm > top or (frm != firm and frm not in delivered_firm):
                bad.append("FirmNamesExecuted")
            soft, firm = max(soft, sft), max(firm, frm)
        elif kind.startswith("commit-"):
            bad.append("FirmNamesExecuted")
    return bad, soft, firm, top


def run(tier, seed, corrupt=False):
    v = vf.Verdict(PROP, tier, seed)
    vf.sany("Conductor.tla")
    rnd = random.Random(seed)
    states = transitions = 0
    cfgs = []
    steps = []
    for cfg, mode, spread in TIERS[tier]["step"]:
        r = vf.run_tlc("Conductor.tla", cfg, tag=f"c10-{cfg}", workers=8, timeout=3000)
        if r.violation:
            v.mismatch(f"spec:Conductor:{cfg}:{r.violation}", vf.tlc_violation_case(r))
            continue
        need = ["ExecFirm", "Restart"] if mode == "FirmOnly" else ["ExecSoft", "Restart"] if mode == "SoftOnly" \
            else ["ExecFirm", "ExecSoft", "Restart"]
        # (the disjuncts of Next are conjoined with UNCHANGED base: TLC reports their coverage under "Next")
        vf.require_coverage(r, [(n, "Next") for n in need])
        states += r.distinct
        transitions += r.generated
        seen = set()
        for t in r.tlines:
            k = vf.canon([t["s"], t["a"]])
            if k in seen:
                continue
            seen.add(k)
            steps.append({"mode": mode, "spread": spread, "s": t["s"], "a": t["a"], "t": t["t"]})
        cfgs.append({"cfg": cfg, "distinct": r.distinct, "generated": r.generated, "distinct_transitions": len(seen),
                     "wall_s": round(r.wall, 1)})
    seen = set()
    uniq = []
    for c in steps:
        k = vf.canon(c)
        if k not in seen:
            seen.add(k)
            uniq.append(c)
    steps = uniq
    for i, c in enumerate(steps):
        c["id"] = i
    if corrupt and steps:
        # selftest: falsify one expected post-state; the harness must object
        k = next(i for i, c in enumerate(steps) if c["a"]["out"] == "ok")
        steps[k] = dict(steps[k], t=dict(steps[k]["t"], soft=steps[k]["t"]["soft"] + 1))
    results = vf.run_harness_sharded("astria-conductor", STEP_ENTRY, steps, tag=f"c10-step-{tier}", shards=12,
                                     timeout=3000) if steps else []
    if len(results) != len(steps):
        raise vf.ToolError(f"harness returned {len(results)} results for {len(steps)} transitions")
    by_id = {r["i"]: r for r in results}
    outcomes = {}
    divergences = {}
    div_samples = []
    for c in steps:
        res = by_id[c["id"]]
        key = f'{c["mode"]}:{c["a"]["op"]}:{c["a"]["out"]}'
        outcomes[key] = outcomes.get(key, 0) + 1
        diffs = compare_step(c, res)
        if not diffs:
            continue
        # the executor did something the specification does not: C10 is decided on what the rollup saw
        # the chain executed so far ends at the soft commitment; in firm-only mode what counts is the firm chain (soft
        # blocks above it are executed again as firm ones)
        top = c["s"]["firm"] if c["mode"] == "FirmOnly" else c["s"]["soft"]
        bad, _, _, _ = property_violations(c["s"]["soft"], c["s"]["firm"], top, res["rpc"],
                                           {c["a"]["h"]} if c["a"]["op"] == "firm" else set())
        if res["result"] in ("panic", "timeout"):
            bad.append(res["result"])
        detail = {"case": c, "observed": res, "differences": [list(d) for d in diffs],
                  "harness": "conductor_executor::transitions"}
        for clause in sorted(set(bad)):
            v.mismatch(f'conductor:step:{c["mode"]}:{c["a"]["op"]}:{clause}', detail)
        if not bad:
            for field, _, _ in diffs:
                k = f'step:{c["mode"]}:{c["a"]["op"]}:{c["a"]["out"]}:{field}'
                divergences[k] = divergences.get(k, 0) + 1
            if len(div_samples) < 3:
                div_samples.append(detail)

    behaviours = []
    for cfg, mode, spread, cap in TIERS[tier]["loop"]:
        r = vf.run_tlc("Conductor.tla", cfg, tag=f"c10-{cfg}", workers=8, timeout=3000, collect_tags=("B",))
        if r.violation:
            v.mismatch(f"spec:Conductor:{cfg}:{r.violation}", vf.tlc_violation_case(r))
            continue
        states += r.distinct
        transitions += r.generated
        behs = vf.parse_tlines(r.out, "B")
        seen = {}
        for b in behs:
            seen.setdefault(vf.canon(b), b)
        behs = list(seen.values())
        rnd.shuffle(behs)
        # prefer behaviours in which something was executed after a restart or with both channels loaded
        behs.sort(key=lambda b: -(sum(1 for e in b if e["op"] in ("soft", "firm")) + 2 * sum(1 for e in b if e["op"] == "restart")))
        take = behs[:cap // 2]
        rest = behs[cap // 2:]
        rnd.shuffle(rest)
        take += rest[:cap - len(take)]
        for b in take:
            behaviours.append({"mode": mode, "spread": spread, "hist": b})
        cfgs.append({"cfg": cfg, "distinct": r.distinct, "generated": r.generated, "behaviours_emitted": len(behs),
                     "behaviours_replayed": len(take), "wall_s": round(r.wall, 1)})
    for i, b in enumerate(behaviours):
        b["id"] = i
    results = vf.run_harness_sharded("astria-conductor", LOOP_ENTRY, behaviours, tag=f"c10-loop-{tier}", shards=14,
                                     timeout=3000) if behaviours else []
    if len(results) != len(behaviours):
        raise vf.ToolError(f"harness returned {len(results)} results for {len(behaviours)} behaviours")
    by_id = {r["i"]: r for r in results}
    settles = 0
    for b in behaviours:
        exp = [e for e in b["hist"] if e["op"] == "settle"]
        got = by_id[b["id"]]["settles"]
        if len(exp) != len(got):
            raise vf.ToolError("settle count differs")
        diffs = []
        for n, (e, g) in enumerate(zip(exp, got)):
            settles += 1
            diffs += [(n,) + d for d in compare_settle(e, g)]
        if not diffs:
            continue
        delivered = {e["h"] for e in b["hist"] if e["op"] == "firm"}
        bad, _, _, _ = property_violations(0, 0, 0, got[-1]["rpc"] if got else [], delivered)
        if any(g.get("ended") in ("panic", "timeout") for g in got):
            bad.append("panic")
        detail = {"case": b, "observed": got, "differences": [list(d) for d in diffs],
                  "harness": "conductor_executor::behaviours"}
        for clause in sorted(set(bad)):
            v.mismatch(f'conductor:loop:{b["mode"]}:{clause}', detail)
        if not bad:
            for d in diffs:
                k = f'loop:{b["mode"]}:{d[1]}'
                divergences[k] = divergences.get(k, 0) + 1
            if len(div_samples) < 3:
                div_samples.append(detail)
    # ---- the readers' side: the block cache turns blocks fetched in any order into the in-order streams assumed above
    vf.sany("BlockCache.tla")
    r = vf.run_tlc("BlockCache.tla", "MC_BlockCache_q.cfg" if tier == "quick" else "MC_BlockCache_t.cfg", tag=f"c10-blockcache-{tier}",
                   workers=8, timeout=3000)
    cache_cases = []
    if r.violation:
        v.mismatch(f"spec:BlockCache:{r.violation}", vf.tlc_violation_case(r))
    else:
        vf.require_coverage(r, ["Insert", "Pop", "DropObsolete"])
        states += r.distinct
        transitions += r.generated
        seen = {}
        for t in r.tlines:
            seen.setdefault(vf.canon([t["s"], t["a"]]), t)
        cache_cases = [dict(t, id=i, max_h=4 if tier == "quick" else 6) for i, t in enumerate(seen.values())]
        cfgs.append({"cfg": "MC_BlockCache", "distinct": r.distinct, "generated": r.generated, "distinct_transitions": len(cache_cases),
                     "wall_s": round(r.wall, 1)})
        cres = vf.run_harness_sharded("astria-conductor", "executor::verif_harness::block_cache_transitions", cache_cases,
                                      tag=f"c10-blockcache-{tier}", shards=8, timeout=3000)
        cby = {x["i"]: x for x in cres}
        if len(cby) != len(cache_cases):
            raise vf.ToolError("block cache harness lost cases")
        for c in cache_cases:
            g = cby[c["id"]]
            exp = {"out": c["a"]["out"], "next": c["t"]["next"], "cache": sorted(c["t"]["cache"])}
            got = {"out": g["out"], "next": g["next"], "cache": sorted(g["cache"])}
            if exp != got:
                # The cache feeds the executor, which refuses anything out of order (that is what C10 is about and
                # what the replays above decide): a cache that differs from its specification costs liveness, not C10.
                k = f'blockcache:{c["a"]["op"]}:{c["a"]["out"]}'
                divergences[k] = divergences.get(k, 0) + 1
                if len(div_samples) < 3:
                    div_samples.append({"case": c, "expected": exp, "observed": got,
                                        "harness": "conductor_executor::block_cache_transitions"})
    cov = {
        "states": states, "transitions": transitions,
        "block_cache_transitions_replayed": len(cache_cases),
        "traces_validated_against_impl": len(behaviours) + len(steps),
        "samples": steps[:1] + behaviours[:1],
        "evaluations": len(steps) + settles,
        "distinct_nontrivial": len(steps) + len(behaviours),
        "rule": "every distinct (state, delivery) transition TLC explored, materialised on the real executor and executed by "
                "execute_soft / execute_firm (compared: result, soft, firm, cache of pending blocks, spread gate before and "
                "after, RPCs seen by the rollup); plus batched behaviours through the real run_event_loop (compared at each "
                "quiescence: state, cache, channel residue, whole RPC log)",
        "step_outcomes": outcomes,
        "model_divergences_not_demanded_by_property": divergences,
        "divergence_samples": div_samples,
        "loop_settles_compared": settles,
        "invariants": INVS,
        "exhaustive": False,
        "tlc_configs": cfgs,
    }
    for k, n in sorted(divergences.items()):
        vf.log(f"DIVERGENCE (C10 itself holds on what the rollup saw): {k} x{n}")
    run.last_divergences = sum(divergences.values())
    return v.finish(cov, assumptions=[
        "the rollup answers every RPC, assigns number(parent)+1 to an executed block and echoes the commitment state",
        "the two readers are an arbitrary environment bounded by MaxInject out-of-order deliveries",
        "no stop height (rollup_end_block_number unset); one rollup; restarts create a new session on the same rollup",
        "loop behaviours: quiescence is detected by 60 ms without RPC or channel activity",
    ])


def replay(path, seed):
    print(open(path).read()[:6000])
    return run("quick", seed)


def selftest(seed):
    rc = run("quick", seed, corrupt=True)
    vf.log(f"selftest: corrupted expectation -> rc={rc}, divergences={run.last_divergences}")
    # a falsified expectation of the executor's tracked state is noticed (as a divergence: the RPCs still satisfy C10)
    if not (rc == 0 and run.last_divergences > 0):
        return 2
    # the property oracle itself: a double execution, a skipped height, a wrong parent, firm overtaking soft
    probes = [([["exec", 1, 0], ["commit", 1, 0], ["exec", 1, 0]], "OncePerHeightInOrder"),
              ([["exec", 2, 1]], "OncePerHeightInOrder"),
              ([["exec", 1, 0], ["commit", 1, 0], ["exec", 2, 0]], "ParentChain"),
              ([["exec", 1, 0], ["commit", 1, 1], ["commit", 1, 0]], "CommitMonotone"),
              ([["exec", 1, 0], ["commit", 1, 2]], "FirmLeSoft"),
              ([["exec", 1, 0], ["commit", 2, 1]], "FirmNamesExecuted")]
    for rpcs, clause in probes:
        bad, _, _, _ = property_violations(0, 0, 0, rpcs, {1, 2})
        if clause not in bad:
            vf.log(f"selftest: oracle misses {clause} on {rpcs}")
            return 2
    return 0
