"""C18 — IBC transfers: exact escrow accounting; a failed receive has no side effects (spec/LedgerIbc.tla)."""
import ibc_common
import vf

PROP = "C18"


def run(tier, seed):
    return ibc_common.run_ibc(PROP, tier, seed)


def replay(path, seed):
    print(open(path).read()[:6000])
    return run("quick", seed)


def selftest(seed):
    ok = True
    for cfg, inv in (("MC_LedgerIbc_mutant_f1.cfg", "FailedRecvNoEffect"), ("MC_LedgerIbc_mutant_f2.cfg", "EscrowIdentity")):
        r = vf.run_tlc("LedgerIbc.tla", cfg, tag="c18-selftest", workers=4, timeout=600)
        vf.log(f"selftest {cfg}: violation={r.violation}")
        ok = ok and r.violation == inv
    return 0 if ok else 2
