"""C08 — Merkle tree: RFC 6962 roots, complete and sound proofs, total verification.
spec/Merkle.tla checked by TLC; every state TLC visits is replayed on the real astria-merkle
crate (harness/merkle_ext) with the symbolic hashes evaluated by SHA-256."""
import collections
import json
import os
import re

import vf

PROP = "C08"
TREE_ACTIONS = [("Next", "Push")]
DIVERGENCE_ONLY = re.compile(r"merkle:(mut:(idx|size|longer|shorter)|triple):expected=(reject|true|false|nopanic)"
                             r":observed=(reject|true|false|nopanic)")
INVS = "RootIsMTH SizeIsOdd ProofIsPATH Complete Sound NoProofOutside NeverPanicsOnMutations Total"


def tlc_cases(tier, v):
    """Run the TLC configs of the tier; returns (cases, stats)."""
    sfx = "q" if tier == "quick" else "t"
    stats = {"states": 0, "transitions": 0, "configs": []}
    cases = []
    for name, workers in (("tree", 2), ("dup", 8), ("triples", 8)):
        cfg = f"MC_Merkle_{name}_{sfx}.cfg"
        r = vf.run_tlc("Merkle.tla", cfg, tag=f"c08-{name}-{sfx}", workers=workers, timeout=1500)
        if r.violation:
            v.mismatch(f"spec:Merkle:{cfg}:{r.violation}", vf.tlc_violation_case(r))
            continue
        if name != "triples":
            vf.require_coverage(r, TREE_ACTIONS)
        stats["states"] += r.distinct
        stats["transitions"] += max(r.generated - 1, 1)
        stats["configs"].append({"cfg": cfg, "distinct": r.distinct, "generated": r.generated, "wall_s": round(r.wall, 1)})
        if name == "triples":
            cases += group_triples(r.tlines, 6 if tier == "quick" else 8)
        else:
            cases += r.tlines
    return cases, stats


def group_triples(recs, w):
    """Identity-mapped ("lo","lo") triples keep the model's exact verdict.  For words taken relative to
    2^(W-1) or 2^W-1 the walk length differs between the W-bit model and 64 bits, so only verdicts that
    do not depend on the audit-path length are exact; the others become "no panic for any length"."""
    out = []
    groups = collections.defaultdict(list)
    for t in recs:
        if t["idx"][0] == "lo" and t["size"][0] == "lo":
            out.append({"kind": "triple", "len": t["len"], "idx": t["idx"], "size": t["size"], "expect": t["verdict"]})
        else:
            groups[(tuple(t["idx"]), tuple(t["size"]))].append(t)
    win = 2 ** (w - 3)
    for (idx, size), ts in sorted(groups.items()):
        # a small word and a word near 2^(W-1) keep their order at 64 bits only if the small one is
        # well below the window around 2^(W-1)
        if (idx[0] == "lo" and idx[1] >= win) or (size[0] == "lo" and size[1] >= win):
            continue
        verdicts = {t["verdict"] for t in ts}
        decodes = {t["decode"] for t in ts}
        if verdicts == {"reject"} and decodes <= {"outside", "zero_size"}:
            exp = "reject"
        elif "panic" in verdicts:
            exp = "panic" if verdicts == {"panic"} else "nopanic"
        else:
            exp = "nopanic"
        out.append({"kind": "triple", "len": None, "idx": list(idx), "size": list(size), "expect": exp})
    return out


def harness_exe():
    return vf.build_ext(os.path.join(vf.ROOT, "harness", "merkle_ext"), "verif-merkle-ext")


def run(tier, seed):
    v = vf.Verdict(PROP, tier, seed)
    vf.sany("Merkle.tla")
    cases, stats = tlc_cases(tier, v)
    exe = harness_exe()
    results = vf.run_cases([exe], vf.ROOT, cases, tag=f"c08-{tier}", shards=12, timeout=1500) if cases else []
    checks = 0
    nontrivial = set()
    divergences = collections.Counter()
    for res in results:
        checks += res["checks"]
        for m in res["mismatches"]:
            # The property fixes the verdict for leaf / path / root changes and forbids panics.  For a changed
            # leaf index, tree size or path length it only demands termination without panic: there a
            # reject/true/false difference from the model is recorded, not reported.
            if DIVERGENCE_ONLY.fullmatch(m["sig"]):
                divergences[m["sig"]] += 1
                continue
            v.mismatch(m["sig"], {"detail": m["detail"], "harness": "merkle_ext"})
    for c in cases:
        if c["kind"] == "tree" and len(c["leaves"]) >= 2:
            nontrivial.add(("tree", tuple(c["leaves"])))
        elif c["kind"] == "triple" and c["expect"] != "reject":
            nontrivial.add(("triple", c["len"], tuple(c["idx"]), tuple(c["size"])))
    if len(results) != len(cases):
        raise vf.ToolError(f"harness returned {len(results)} results for {len(cases)} cases")
    sample_tree = next((c for c in cases if c["kind"] == "tree" and len(c["leaves"]) == 3), None)
    samples = []
    if sample_tree:
        samples.append({"leaves": sample_tree["leaves"], "root": sample_tree["root"], "proofs": sample_tree["proofs"],
                        "muts_of_leaf_0": sample_tree["muts"][0]})
    samples += [c for c in cases if c["kind"] == "triple" and c["expect"] not in ("reject",)][:3]
    cov = {
        "states": stats["states"],
        "transitions": stats["transitions"],
        "traces_validated_against_impl": len(cases),
        "samples": samples,
        "evaluations": checks,
        "distinct_nontrivial": len(nontrivial),
        "rule": "cases = TLC states of Merkle.tla (one per pushed-leaf prefix; one per (path length, leaf index, tree size) "
                "triple of the W-bit model); every case is replayed on the real crate and every comparison "
                "(root, each proof, each leaf/path/root/index/size/length mutation verdict) counts as one evaluation; "
                "non-trivial = trees with >= 2 leaves, triples the decoder does not reject outright",
        "exhaustive": True,
        "tlc_configs": stats["configs"],
        "model_divergences_not_demanded_by_property": dict(divergences),
    }
    return v.finish(cov, assumptions=[
        "SHA-256 is collision free (symbolic hashes are injective constructors)",
        "64-bit usize; words near 2^63 / 2^64-1 are represented by the analogous words of the W-bit model",
    ])


def replay(path, seed):
    rep = json.load(open(path))
    print(json.dumps(rep, indent=1)[:4000])
    return run("quick", seed)


def selftest(seed):
    """The invariants can fail: the model of the unrepaired decoder (CheckedDecode = FALSE) must violate them."""
    ok = True
    for cfg, inv in (("MC_Merkle_tree_mutant.cfg", "NeverPanicsOnMutations"), ("MC_Merkle_triples_mutant.cfg", "Total")):
        r = vf.run_tlc("Merkle.tla", cfg, tag="c08-selftest", workers=4, timeout=600)
        vf.log(f"selftest {cfg}: violation={r.violation}")
        ok = ok and r.violation == inv
    return 0 if ok else 2
