"""Driver for spec/LedgerIbc.tla (C18, and the IBC-receive part of C04)."""
import vf

ENTRY = "app::verif_harness::ibc::ibc_transitions"


def run_ibc(prop, tier, seed, profiles=("flow", "recv"), only_devs=None, verdict=None):
    v = verdict or vf.Verdict(prop, tier, seed)
    vf.sany("LedgerIbc.tla")
    states = transitions = 0
    cfgs = []
    trans = {}
    for p in profiles:
        design = f"MC_LedgerIbc_{p}_design.cfg" if tier == "thorough" or p == "recv" else f"MC_LedgerIbc_{p}_design_q.cfg"
        for cfg, logged in ((design, False), (f"MC_LedgerIbc_{p}_coded.cfg", True)):
            r = vf.run_tlc("LedgerIbc.tla", cfg, tag=f"{prop}-{cfg}", workers=8, timeout=3000, xmx="12g")
            if r.violation:
                v.mismatch(f"spec:LedgerIbc:{cfg}:{r.violation}", vf.tlc_violation_case(r))
                continue
            states += r.distinct
            transitions += r.generated
            if logged:
                for t in r.tlines:
                    trans.setdefault((vf.canon(t["s"]), vf.canon(t["a"])), t)
            cfgs.append({"cfg": cfg, "distinct": r.distinct, "generated": r.generated, "wall_s": round(r.wall, 1)})
    cases = list(trans.values())
    if tier == "quick":
        # every distinct step (operation, arguments, outcome, deviation) from up to 3 of the pre-states it was explored from
        import random
        rnd = random.Random(seed)
        rnd.shuffle(cases)
        per = {}
        kept = []
        for c in cases:
            k = vf.canon(c["a"])
            if per.get(k, 0) < 3:
                per[k] = per.get(k, 0) + 1
                kept.append(c)
        cases = kept
    results = vf.run_harness_sharded("astria-sequencer", ENTRY, cases, tag=f"{prop}-ibc-{tier}", shards=14,
                                     timeout=3000) if cases else []
    if len(results) != len(cases):
        raise vf.ToolError(f"harness returned {len(results)} results for {len(cases)} cases")
    matched = {}
    for res in results:
        for m in res["mismatches"]:
            v.mismatch(m["sig"], {"detail": m["detail"], "harness": "sequencer_app/ibc"})
        matched[res["matched"]] = matched.get(res["matched"], 0) + 1
        if res["matched"] == "coded":
            c = cases[res["case"]] if False else None
            dev = res["dev"]
            if only_devs is None or dev in only_devs:
                where = res.get("where")
                v.mismatch(f"ibc:known-deviation:{dev}", {"detail": {"where": where}, "harness": "sequencer_app/ibc"})
    by_op = {}
    for c in cases:
        k = f'{c["a"]["op"]}:{c["a"]["out"]}'
        by_op[k] = by_op.get(k, 0) + 1
    nontrivial = [c for c in cases if c["a"]["out"] != "fail"]
    samples = [c for c in cases if c["a"]["dev"] != "none"][:1] + [c for c in cases if c["a"]["op"] == "recv" and c["a"]["out"] == "ok"][:1]
    cov = {
        "states": states, "transitions": transitions,
        "traces_validated_against_impl": len(cases),
        "samples": samples,
        "evaluations": len(cases),
        "distinct_nontrivial": len(nontrivial),
        "rule": "distinct (pre-state, step) transitions of LedgerIbc.tla as coded (withdrawals over two channels in both "
                "denomination spellings, refunds by timeout / error ack, receives of returning and foreign tokens to plain, "
                "bridge, disabled, wrong-asset and malformed recipients with each memo class, escrow short, balance at "
                "u128::MAX); each replayed on the real Ics20Withdrawal / Ics20Transfer handlers; non-trivial = the step does "
                "not fail outright",
        "by_step_and_outcome": by_op,
        "implementation_matched": matched,
        "exhaustive": tier != "quick",
        "tlc_configs": cfgs,
    }
    assumptions = [
        "penumbra-ibc verifies proofs, channel state and packet uniqueness (a packet is acknowledged or timed out at most once)",
        "an honest counterparty returns at most the vouchers it holds",
        "the handlers are called the way penumbra calls them: *_check then *_execute, inside the transaction's delta",
    ]
    if verdict is not None:
        return cov, assumptions
    return v.finish(cov, assumptions=assumptions)
