"""C11 — The relayer never skips a sequencer block on Celestia across any crash / restart.
spec/Relayer.tla (state file fresh/started/prepared, prepare -> write -> broadcast -> confirm -> write, restart with
confirm-or-revert, Celestia losing / delaying / including BlobTxs, a crash at any instant) is model checked by TLC.
The real Relayer::run is then run through scripted crash / Celestia-fault scenarios (a process = a tokio runtime
that is dropped to kill it); every RPC reaching the fake Celestia app and every state-file write is recorded and the
event logs are validated against the specification by TLC (spec/RelayerTrace.tla), its invariants evaluated in every
state of the implementation's behaviour."""
import itertools
import json
import os
import random

import vf

PROP = "C11"
ENTRY = "relayer::write::verif_harness::crash_scenarios"
OUTCOMES = [(True, "ok"), (True, "error"), (False, "error"), (True, "timeout"), (False, "timeout")]
INCLUDES = ["polls:1", "polls:3", "never", "on_crash", "on_next_prepare", "fail_polls:1"]
CRASHES = [("none", 0, "-"), ("nodeinfo", 1, "before"), ("prepare", 1, "before"), ("broadcast", 1, "before"),
           ("broadcast", 1, "after"), ("gettx", 1, "before"), ("gettx", 2, "before"), ("prepare", 2, "before"),
           ("broadcast", 2, "before"), ("broadcast", 2, "after")]
INVS = ["NoGap", "FileHonest", "FileReadable", "MemHonest", "TypeOK"]


def crash(c):
    return {"at": c[0], "n": c[1], "phase": c[2]}


def scenarios(tier, seed):
    rnd = random.Random(seed)
    out = []
    # family A: every first-broadcast outcome x inclusion x crash point, then a clean restart
    for (d, told), inc, c in itertools.product(OUTCOMES, INCLUDES, CRASHES):
        out.append({"head": 3, "family": "A",
                    "broadcasts": [{"delivered": d, "told": told, "include": inc}],
                    "sessions": [{"crash": crash(c), "limit_secs": 100}, {"crash": crash(CRASHES[0]), "limit_secs": 400}]})
    # family B: random repeated crashes, growing chain, leftovers of an interrupted temp-file write
    n_b = 150 if tier == "quick" else 3000
    for _ in range(n_b):
        ns = rnd.randint(2, 4)
        sessions = []
        head = rnd.randint(1, 4)
        for s in range(ns):
            last = s == ns - 1
            c = CRASHES[0] if last else rnd.choice(CRASHES)
            sessions.append({"crash": crash(c), "limit_secs": 400 if last else rnd.choice([60, 100]),
                             "tmp_garbage": rnd.random() < 0.3, "head": head})
            head = min(7, head + rnd.randint(0, 2))
        bcs = []
        for _ in range(rnd.randint(0, 6)):
            d, told = rnd.choice(OUTCOMES)
            bcs.append({"delivered": d, "told": told, "include": rnd.choice(INCLUDES)})
        out.append({"head": sessions[0]["head"], "family": "B", "broadcasts": bcs, "sessions": sessions})
    # family C: blocks of 600 kB (a submission holds one; the next block is pushed back) with a crash around the second
    # and third submission, and a restart
    K = 1000
    big = {str(h): [[1, 600 * K]] for h in range(1, 5)}
    for c in [("prepare", 2, "before"), ("broadcast", 2, "before"), ("broadcast", 2, "after"), ("gettx", 2, "before"),
              ("prepare", 3, "before"), ("broadcast", 3, "after")]:
        for (d, told), inc in [((True, "ok"), "polls:1"), ((True, "timeout"), "on_crash"), ((False, "error"), "never")]:
            out.append({"head": 4, "family": "C", "blocks": big,
                        "broadcasts": [{"delivered": True, "told": "ok", "include": "polls:1"},
                                       {"delivered": d, "told": told, "include": inc}],
                        "sessions": [{"crash": crash(c), "limit_secs": 100}, {"crash": crash(CRASHES[0]), "limit_secs": 400}]})
    if tier == "quick":
        a = [s for s in out if s["family"] == "A"]
        b = [s for s in out if s["family"] == "B"]
        rnd.shuffle(a)
        out = a[:120] + b + [s for s in out if s["family"] == "C"]
    for i, s in enumerate(out):
        s["id"] = i
    return out


def normalise(res):
    """Implementation events -> trace records for RelayerTrace.tla (BlobTx hashes become 1, 2, .. in the order the
    state file first names them)."""
    ids = {}
    recs = [{"ev": "reset"}]

    def tx(h):
        return ids.get(h, 0)

    def f(x):
        if x["k"] == "prepared" and x["tx"] not in ids:
            ids[x["tx"]] = len(ids) + 1
        return {"k": x["k"], "last": x["last"], "h": x["h"], "tx": tx(x["tx"]) if x["k"] == "prepared" else 0}

    for e in res["events"]:
        ev = e["ev"]
        if ev == "boot":
            recs.append({"ev": "boot", "file": f(e["file"])})
        elif ev == "file":
            recs.append({"ev": "file", "file": f(e["file"]), "ok": e["ok"]})
        elif ev == "rpc_prepare":
            recs.append({"ev": "rpc_prepare"})
        elif ev == "broadcast":
            recs.append({"ev": "broadcast", "tx": tx(e["tx"]), "lo": e["lo"], "hi": e["hi"], "contiguous": e["contiguous"],
                         "delivered": e["delivered"]})
        elif ev == "gettx":
            recs.append({"ev": "gettx", "tx": tx(e["tx"]), "ans": e["ans"]})
        elif ev == "include":
            recs.append({"ev": "include", "tx": tx(e["tx"])})
        elif ev == "fail":
            recs.append({"ev": "fail", "tx": tx(e["tx"])})
        elif ev == "crash":
            recs.append({"ev": "crash"})
    return recs


def property_on_observation(res):
    """C11 evaluated directly on what was observed: returns the list of violated clauses."""
    bad = []
    txs = {}          # hash -> heights
    confirmed = set()

    def covered():
        c = set()
        for h in confirmed:
            c.update(txs.get(h, ()))
        return c

    for e in res["events"]:
        ev = e["ev"]
        if ev == "broadcast":
            txs[e["tx"]] = e["heights"]
        elif ev == "include":
            confirmed.add(e["tx"])
            c = covered()
            if c and set(range(1, max(c) + 1)) - c:
                bad.append("NoGap")
        elif ev in ("file", "boot"):
            fl = e["file"]
            if e.get("in_place"):
                # the file was modified where it stood: a crash in the middle of that write leaves it unreadable
                # (Relayer.tla with AtomicWrite = FALSE: FileReadable fails)
                bad.append("FileReadable:written-in-place")
            if fl["k"] == "torn" or fl["k"] == "?":
                bad.append("FileReadable")
            elif fl["k"] in ("started", "prepared"):
                if set(range(1, fl["last"] + 1)) - covered():
                    bad.append("FileHonest")
    if any(o.startswith("panicked") for o in res["outcomes"]):
        bad.append("panic")
    # a relayer that stops because it will not read the state file it wrote itself
    if any(o.startswith("exited with error") and ("submission state" in o or "submission-state" in o) for o in res["outcomes"]):
        bad.append("FileReadable:relayer-refuses-its-own-state-file")
    return sorted(set(bad))


def run(tier, seed, corrupt=False):
    v = vf.Verdict(PROP, tier, seed)
    vf.sany("Relayer.tla")
    vf.sany("RelayerTrace.tla")
    cfgs = []
    states = transitions = 0
    # 1. the design
    for cfg in (["MC_Relayer_q.cfg"] if tier == "quick" else ["MC_Relayer_q.cfg", "MC_Relayer_t.cfg"]):
        r = vf.run_tlc("Relayer.tla", cfg, tag=f"c11-{cfg}", workers=8, timeout=3000)
        if r.violation:
            v.mismatch(f"spec:Relayer:{cfg}:{r.violation}", vf.tlc_violation_case(r))
            continue
        vf.require_coverage(r, ["Boot", "ConfirmPrevConfirmed", "ConfirmPrevTimeout", "TakeBatch", ("WritePrepared", "Next"), "Broadcast",
                                "Confirmed", "FailedAttemptTimeout", "Include", "Evict", "IncludeFailed", "Crash", "CrashDuringWrite"])
        states += r.distinct
        transitions += r.generated
        cfgs.append({"cfg": cfg, "distinct": r.distinct, "generated": r.generated, "wall_s": round(r.wall, 1)})
    # the two mutants of the design must be caught by the invariants (the invariants are not vacuous)
    for cfg, inv in (("MC_Relayer_mut_inplace.cfg", "FileReadable"), ("MC_Relayer_mut_reader.cfg", "NoGap")):
        r = vf.run_tlc("Relayer.tla", cfg, tag=f"c11-{cfg}", workers=4, timeout=600)
        if r.violation != inv:
            raise vf.ToolError(f"{cfg}: expected {inv} to be violated, got {r.violation}")
    # 2. the implementation under crashes and Celestia faults
    scen = scenarios(tier, seed)
    results = vf.run_harness_sharded("astria-sequencer-relayer", ENTRY, scen, tag=f"c11-{tier}", shards=14, timeout=3000)
    if len(results) != len(scen):
        raise vf.ToolError(f"harness returned {len(results)} results for {len(scen)} scenarios")
    by_id = {r["i"]: r for r in results}
    traces = {s["id"]: normalise(by_id[s["id"]]) for s in scen}
    if corrupt:
        # selftest: pretend a state-file write recorded a higher height than was confirmed
        for sid, recs in traces.items():
            hit = [r for r in recs if r["ev"] == "file" and r["file"]["k"] == "started" and r["file"]["last"] > 0]
            if hit:
                hit[0]["file"] = dict(hit[0]["file"], last=hit[0]["file"]["last"] + 1)
                break
    # 3. trace validation: all scenarios in one TLC run; a scenario TLC cannot follow is set aside and judged on the
    # observation itself, the rest is validated again
    d = vf.workdir("c11", tier, clean=True)
    live = [s["id"] for s in scen]
    stuck = {}
    inv_viol = {}
    validated_events = 0
    unvalidated = []
    for attempt in range(12):
        path = os.path.join(d, f"trace{attempt}.ndjson")
        index = []
        with open(path, "w") as f:
            for sid in live:
                for r in traces[sid]:
                    f.write(json.dumps(r) + "\n")
                    index.append(sid)
        if not index:
            break
        r = vf.run_tlc("RelayerTrace.tla", "MC_RelayerTrace.cfg", tag=f"c11-trace-{tier}-{attempt}", workers=1,
                       env={"VERIF_TRACE": path}, timeout=3000, coverage=False, deque=True, xss="1g", xmx="4g")
        states += r.distinct
        transitions += r.generated
        pos = None
        if r.violation:
            # an invariant failed in a state of the implementation's behaviour: l tells which event
            import re
            ls = [int(x) for x in re.findall(r"/\\ l = (\d+)", r.trace)]
            pos = max(ls) - 1 if ls else 1
            sid = index[min(pos, len(index)) - 1]
            inv_viol[sid] = r.violation
        else:
            import re
            m = re.search(r'"TRACE-STUCK", (\d+)', r.out)
            if not m:
                validated_events = len(index)
                break
            pos = int(m.group(1))
            sid = index[min(pos, len(index)) - 1]
            first = index.index(sid)
            stuck[sid] = {"event_index_in_scenario": pos - first, "event": traces[sid][min(pos - first, len(traces[sid]) - 1)]}
        live = [x for x in live if x != sid]
    else:
        # many behaviours the specification does not allow: the rest is judged on the observation alone
        unvalidated = list(live)
    divergences = {}
    div_samples = []
    for sid, inv in inv_viol.items():
        v.mismatch(f"relayer:trace:{inv}", {"scenario": next(s for s in scen if s["id"] == sid), "observed": by_id[sid],
                                            "harness": "relayer_write::crash_scenarios"})
    for sid, where in stuck.items():
        bad = property_on_observation(by_id[sid])
        detail = {"scenario": next(s for s in scen if s["id"] == sid), "stuck_at": where, "observed": by_id[sid],
                  "harness": "relayer_write::crash_scenarios"}
        for clause in bad:
            v.mismatch(f"relayer:observed:{clause}", detail)
        if not bad:
            k = f'trace-rejected-at:{where["event"]["ev"]}'
            divergences[k] = divergences.get(k, 0) + 1
            if len(div_samples) < 3:
                div_samples.append(detail)
    # every scenario is also judged on the observation itself (independent of the trace specification)
    if unvalidated:
        divergences["trace-validation-abandoned-after-12-rejections"] = len(unvalidated)
    for s in scen:
        if s["id"] in stuck or corrupt:
            continue
        for clause in property_on_observation(by_id[s["id"]]):
            v.mismatch(f"relayer:observed:{clause}", {"scenario": s, "observed": by_id[s["id"]],
                                                      "harness": "relayer_write::crash_scenarios"})
    for k, n in sorted(divergences.items()):
        vf.log(f"DIVERGENCE (C11 itself holds on what was observed): {k} x{n}")
    run.last_divergences = sum(divergences.values())
    run.last_inv = dict(inv_viol)
    ev_kinds = {}
    for sid in traces:
        for r in traces[sid]:
            ev_kinds[r["ev"]] = ev_kinds.get(r["ev"], 0) + 1
    outcomes = {}
    for r in results:
        for o in r["outcomes"]:
            o = o.split(":")[0]
            outcomes[o] = outcomes.get(o, 0) + 1
    cov = {
        "states": states, "transitions": transitions,
        "traces_validated_against_impl": len(scen) - len(stuck) - len(inv_viol) - len(unvalidated),
        "samples": scen[:1],
        "evaluations": validated_events,
        "distinct_nontrivial": len(scen),
        "rule": "crash / fault scenarios: family A = every (first broadcast outcome x inclusion timing x crash point) followed "
                "by a clean restart; family B = seeded random sequences of 2-4 process lives with repeated crashes, a growing "
                "chain, interrupted temp-file writes; family C = 600 kB blocks (one per submission, the next pushed back) with a "
                "crash around the second and third submission; each recorded event log validated by TLC against RelayerTrace.tla with "
                "NoGap, FileHonest, FileReadable, MemHonest evaluated in every state",
        "events_by_kind": ev_kinds,
        "session_outcomes": outcomes,
        "model_divergences_not_demanded_by_property": divergences,
        "divergence_samples": div_samples,
        "invariants": INVS,
        "exhaustive": False,
        "tlc_configs": cfgs,
    }
    return v.finish(cov, assumptions=[
        "a process crash loses memory and in-flight requests but not completed file-system operations (no power failure)",
        "Celestia includes a BlobTx atomically and GetTx reports inclusion truthfully",
        "crash points are RPC boundaries (every persistent state the relayer can be in is reached at one) plus the "
        "leftover of an interrupted temp-file write; a crash inside the rename itself is covered by the design model only",
        "the sequencer serves every block up to its head",
    ])


def replay(path, seed):
    print(open(path).read()[:6000])
    return run("quick", seed)


def selftest(seed):
    rc = run("quick", seed, corrupt=True)
    vf.log(f"selftest: corrupted state-file record -> rc={rc}, invariant={run.last_inv}, divergences={run.last_divergences}")
    return 0 if (rc == 1 or run.last_divergences > 0) else 2
