"""C02 — decided by spec/Ledger.tla (profile "auth"); see checks/ledger_common.py and DESIGN.md section 5.2."""
import ledger_common

PROP = "C02"
PROFILES = ["auth"]


def run(tier, seed):
    return ledger_common.run_ledger(PROP, PROFILES, tier, seed)


def replay(path, seed):
    print(open(path).read()[:6000])
    return run("quick", seed)


def selftest(seed):
    return 0
