"""C07 — Rollup data is complete, ordered and provable from block to rollup.
spec/RollupData.tla says, for every block shape (actions in block order cut into transactions: sequenced data and
bridge locks for several rollups, duplicate payloads, deposit-only rollups), what each rollup must see in the stored,
full, filtered and Celestia forms and which tampered forms a receiver must refuse.  TLC enumerates the shapes; each is
executed as a real block (finalize_block + commit), served by the real gRPC handlers, decoded by the client-side types,
split for Celestia and decoded again by the conductor's pipeline; every listed tampering is applied to the raw forms."""
import os
import random
import shutil

import vf

PROP = "C07"
SEQ_ENTRY = "app::verif_harness::rollupdata::rollupdata_blocks"
CONDUCTOR_ENTRY = "celestia::verif_harness::decode_submissions"


def run(tier, seed, corrupt=False):
    v = vf.Verdict(PROP, tier, seed)
    vf.sany("RollupData.tla")
    rnd = random.Random(seed)
    states = transitions = 0
    cfgs = []
    r = vf.run_tlc("RollupData.tla", "MC_RollupData_q.cfg", tag="c07-defs", workers=8, timeout=3000, coverage=False)
    if r.violation:
        v.mismatch(f"spec:RollupData:defs:{r.violation}", vf.tlc_violation_case(r))
    states += r.distinct
    transitions += r.generated
    cfgs.append({"cfg": "MC_RollupData_q.cfg", "distinct": r.distinct, "generated": r.generated, "wall_s": round(r.wall, 1)})
    shapes = []
    for cfg, rollups, cap in ([("MC_RollupData_export_q.cfg", [1, 2], 260)] if tier == "quick" else
                              [("MC_RollupData_export_q.cfg", [1, 2], 10 ** 9), ("MC_RollupData_export_t.cfg", [1, 2, 3], 2500)]):
        r = vf.run_tlc("RollupData.tla", cfg, tag=f"c07-{cfg}", workers=8, timeout=3000, coverage=False, xmx="12g")
        if r.violation:
            v.mismatch(f"spec:RollupData:{cfg}:{r.violation}", vf.tlc_violation_case(r))
            continue
        states += r.distinct
        transitions += r.generated
        ts = list({vf.canon([t["acts"], t["cuts"]]): t for t in r.tlines}.values())
        rnd.shuffle(ts)
        # keep the shapes with the most actions first (they contain the smaller ones as sub-cases)
        ts.sort(key=lambda t: -len(t["acts"]))
        take = ts[:cap * 2 // 3] + rnd.sample(ts[cap * 2 // 3:], min(len(ts) - cap * 2 // 3, cap // 3)) if len(ts) > cap else ts
        for t in take:
            shapes.append(dict(t, rollups=rollups, absent=9))
        cfgs.append({"cfg": cfg, "distinct": r.distinct, "shapes": len(ts), "replayed": len(take), "wall_s": round(r.wall, 1)})
    for i, s in enumerate(shapes):
        s["id"] = i
    if corrupt and shapes:
        # selftest: claim that a rollup must see its items in the reverse order
        k = next(i for i, s in enumerate(shapes) if any(len(x) >= 2 and x[0] != x[-1] for x in (s["items"] if isinstance(s["items"], list) else s["items"].values())))
        it = shapes[k]["items"]
        if isinstance(it, list):
            shapes[k]["items"] = [list(reversed(x)) for x in it]
        else:
            shapes[k]["items"] = {a: list(reversed(b)) for a, b in it.items()}
    results = vf.run_harness_sharded("astria-sequencer", SEQ_ENTRY, shapes, tag=f"c07-seq-{tier}", shards=14, timeout=3000)
    by_id = {r["i"]: r for r in results}
    if len(by_id) != len(shapes):
        raise vf.ToolError(f"sequencer harness returned {len(by_id)} results for {len(shapes)} shapes")
    counts = {"filters": 0, "tampers_full_filtered": 0, "celestia_views": 0}
    decode_cases = []
    expect = {}
    for s in shapes:
        res = by_id[s["id"]]
        for m in res["mismatches"]:
            v.mismatch(m["sig"], {"shape": {"acts": s["acts"], "cuts": s["cuts"]}, "detail": m.get("detail"),
                                  "harness": "sequencer_app::rollupdata"})
        if "celestia" not in res:
            continue
        counts["filters"] += res["filters_checked"]
        counts["tampers_full_filtered"] += res["tampers_checked"]
        cel = res["celestia"]
        blocks = [{"chain_height": cel["height"], "hash": cel["hash"]},
                  {"chain_height": cel["other"]["height"], "hash": cel["other"]["hash"]}]
        for cc in cel["cases"]:
            for view in cc["views"]:
                cid = f'{s["id"]}:{cc["tag"]}:{view}'
                decode_cases.append({"id": cid, "rollup": view, "chain": cel["chain"], "seq_start": cel["height"] - 1,
                                     "blocks": blocks, "subs": [{"blobs": cc["blobs"]}]})
                tampered_rollup = int(cc["tag"].rsplit("-", 1)[1]) if cc["tag"] != "honest" else None
                expect[cid] = {"shape": s, "tag": cc["tag"], "view": view, "verdict": cc["verdict"], "ours": cel["hash"],
                               "honest": cel["honest_digests"].get(str(view), []), "is_tampered_view": view == tampered_rollup}
    dres = vf.run_harness_sharded("astria-conductor", CONDUCTOR_ENTRY, decode_cases, tag=f"c07-conductor-{tier}", shards=14,
                                  timeout=3000) if decode_cases else []
    dby = {r["i"]: r for r in dres}
    if len(dby) != len(decode_cases):
        raise vf.ToolError(f"conductor harness returned {len(dby)} results for {len(decode_cases)} cases")
    for cid, e in expect.items():
        g = dby[cid]["subs"][0]
        counts["celestia_views"] += 1
        detail = {"shape": {"acts": e["shape"]["acts"], "cuts": e["shape"]["cuts"]}, "tamper": e["tag"], "view": e["view"],
                  "conductor": g, "honest": e["honest"], "harness": "conductor_celestia::decode_submissions"}
        kind = e["tag"].split("-")[1] if e["tag"] != "honest" else "none"
        if "panic" in g:
            v.mismatch(f"rollupdata:celestia:{kind}:panic", detail)
            continue
        ours = [b for b in g["blocks"] if b["hash"] == e["ours"]]
        # whatever was done to the blobs, a rollup is never handed data that is not its own
        for b in ours:
            if b["txs"] != e["honest"]:
                v.mismatch(f"rollupdata:celestia:{kind}:wrong-data-delivered", detail)
        if e["verdict"] == "accept":
            if len(ours) != 1:
                v.mismatch(f"rollupdata:celestia:{kind}:honest-block-not-delivered", detail)
        elif e["is_tampered_view"] or kind in ("ids_drop", "ids_add", "other_block_hash"):
            if ours:
                v.mismatch(f"rollupdata:celestia:{kind}:tampered-block-delivered", detail)
        elif kind == "relabel_to_other" and len(ours) != 1:
            # the other rollup's own data is untouched; a forged copy in its namespace (anyone can post one) must not
            # keep its genuine block from being delivered
            v.mismatch(f"rollupdata:celestia:{kind}:genuine-block-lost-to-forged-copy", detail)
    shutil.rmtree(vf.workdir("harness", f"c07-seq-{tier}"), ignore_errors=True)
    run.last_violations = len(v.violations)
    cov = {
        "states": states, "transitions": transitions,
        "traces_validated_against_impl": len(shapes),
        "samples": [{k: shapes[0][k] for k in ("acts", "cuts", "ids", "items")}] if shapes else [],
        "evaluations": counts["filters"] + counts["tampers_full_filtered"] + counts["celestia_views"],
        "distinct_nontrivial": len([s for s in shapes if s["acts"]]),
        "rule": "distinct block shapes (<=3-4 actions over 2-3 rollups, 2 payload identities, all cuts into transactions); per "
                "shape: full form, filtered form for all 2^(n+1) requested sets (incl. a rollup without data), Celestia split "
                "and conductor reconstruction for every rollup, and every applicable single tampering (alter, swap, drop, "
                "append, relabel to unused / other rollup, other block, rollup-id list shortened / extended) of every form",
        "checked": counts,
        "exhaustive": tier != "quick",
        "tlc_configs": cfgs,
    }
    return v.finish(cov, assumptions=[
        "the CometBFT block hash itself is taken on trust by the full and filtered forms (only a commit can vouch for it); "
        "attribution to another block is tested on the Celestia form, where the conductor checks the hash against a commit",
        "deposits come from bridge locks; empty payloads are not constructible (RollupDataSubmission rejects them)",
        "conductor side: verify_metadata against a CometBFT mock whose commits sign exactly the blocks' hashes",
    ])


def replay(path, seed):
    print(open(path).read()[:6000])
    return run("quick", seed)


def selftest(seed):
    rc = run("quick", seed, corrupt=True)
    vf.log(f"selftest: expected item order reversed for one shape -> rc={rc}")
    return 0 if rc == 1 else 2
