#!/bin/bash
# confirm_seeded.sh <worktree> <variant-dir> <package> <demo-filter>
# Confirms a seeded change in its scratch worktree: demo passes without the change, fails with it,
# and the package's existing lib tests still pass with the change alone.
set -u
wt=$1; vd=$2; pkg=$3; filt=$4
export CARGO_TARGET_DIR=$wt/target CARGO_NET_OFFLINE=true
cd "$wt" || exit 2
git checkout -q -- . && git clean -fdq -e target
echo "== $vd: demo on unmodified tree"
git apply "$vd/demo.patch" || { echo "demo.patch does not apply"; exit 2; }
cargo nextest run -p "$pkg" --offline --retries 0 "$filt" 2>&1 | grep -E "Summary|PASS|FAIL" | sort | uniq -c | tail -5
echo "== $vd: demo with the change"
git apply "$vd/patch.diff" || { echo "patch.diff does not apply"; exit 2; }
cargo nextest run -p "$pkg" --offline --retries 0 "$filt" 2>&1 | grep -E "Summary|PASS|FAIL" | sort | uniq -c | tail -5
echo "== $vd: existing tests with the change alone"
git checkout -q -- . && git clean -fdq -e target
git apply "$vd/patch.diff"
cargo nextest run -p "$pkg" --offline --retries 3 --no-fail-fast 2>&1 | grep -E "Summary|FAIL" | sort | uniq -c | tail -5
git checkout -q -- . && git clean -fdq -e target
