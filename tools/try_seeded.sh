#!/bin/bash
# try_seeded.sh <patch.diff> <Cxx> [tier]  -- apply a seeded change to /repo, run the check, revert.
p=$1; c=$2; tier=${3:-quick}
cd /verif
git -C /repo apply "$p" || { echo "APPLY FAILED $p"; exit 2; }
./check $c --tier $tier > /tmp/try_$c.out 2>&1; rc=$?
git -C /repo checkout -- .
echo "== $p on $c ($tier): rc=$rc"
grep -E "^VIOLATION|signature|KNOWN-FINDING|TOOL-ERROR|DIVERGENCE" /tmp/try_$c.out | head -8
