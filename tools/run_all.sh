#!/bin/bash
# run_all.sh <tier>: every registered check, sequentially; one line per check (rc, wall seconds, alarms)
tier=${1:-quick}
cd /verif
for c in $(python3 -c "import json; print(' '.join(x['property_id'] for x in json.load(open('MANIFEST.json'))['checks']))"); do
  t0=$(date +%s)
  ./check $c --tier $tier > work/run_all_$c.out 2>&1; rc=$?
  t1=$(date +%s)
  echo "$c rc=$rc $((t1-t0))s $(grep -cE '^VIOLATION' work/run_all_$c.out) violations, $(grep -cE '^KNOWN-FINDING' work/run_all_$c.out) known, $(grep -cE '^DIVERGENCE' work/run_all_$c.out) divergences $(grep -E '^TOOL-ERROR' work/run_all_$c.out | cut -c1-120)"
done
