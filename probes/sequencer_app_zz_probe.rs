#![allow(clippy::all, unused_imports)]
use std::{collections::HashMap, sync::Arc};

use astria_core::{
    crypto::SigningKey,
    primitive::v1::{asset::IbcPrefixed, RollupId, TransactionId},
    protocol::{memos::v1::Ics20TransferDeposit, transaction::v1::action::ValidatorUpdate},
};
use ibc_types::core::channel::{
    msgs::MsgRecvPacket,
    packet::Sequence,
    ChannelId, Packet, PortId, TimeoutHeight,
};
use penumbra_ibc::component::app_handler::AppHandlerExecute as _;
use penumbra_proto::core::component::ibc::v1::FungibleTokenPacketData;

use crate::{
    accounts::{StateReadExt as _, StateWriteExt as _},
    authority::StateReadExt as _,
    bridge::{StateReadExt as _, StateWriteExt as _},
    ibc::{ics20_transfer::Ics20Transfer, StateReadExt as _, StateWriteExt as _},
    mempool::{Mempool, TransactionStatus},
    test_utils::*,
};

#[tokio::test]
async fn probe_f7_add_then_remove_new_validator_same_block() {
    let mut fixture = Fixture::uninitialized(None).await;
    fixture
        .chain_initializer()
        .with_authority_sudo_address(*ALICE_ADDRESS)
        .init()
        .await;
    let _ = fixture.run_until_blackburn_applied().await;
    let new_key = SigningKey::from([7u8; 32]).verification_key();
    let tx1 = fixture
        .checked_tx_builder()
        .with_signer(ALICE.clone())
        .with_nonce(0)
        .with_action(ValidatorUpdate {
            power: 5,
            verification_key: new_key.clone(),
            name: "new".parse().unwrap(),
        })
        .build()
        .await;
    fixture.app.execute_transaction(tx1).await.unwrap();
    let tx2 = fixture
        .checked_tx_builder()
        .with_signer(ALICE.clone())
        .with_nonce(1)
        .with_action(ValidatorUpdate {
            power: 0,
            verification_key: new_key.clone(),
            name: "new".parse().unwrap(),
        })
        .build()
        .await;
    fixture.app.execute_transaction(tx2).await.unwrap();
    let resp = fixture.app.end_block(5, &*ALICE_ADDRESS_BYTES).await.unwrap();
    println!("PROBE F7 validator_updates = {:?}", resp.validator_updates);
    println!(
        "PROBE F7 count = {}",
        fixture.state().get_validator_count().await.unwrap()
    );
}

#[tokio::test]
async fn probe_f4_demotion_overflow_silently_drops() {
    let mut fixture = Fixture::default_initialized().await;
    let mempool = Mempool::new(fixture.metrics(), 100, 100);
    let asset: IbcPrefixed = nria().to_ibc_prefixed();
    let balances: HashMap<IbcPrefixed, u128> = [(asset, 1_000_000u128)].into_iter().collect();
    let mut ids = vec![];
    for nonce in 0..18u32 {
        let tx = fixture
            .checked_tx_builder()
            .with_signer(ALICE.clone())
            .with_nonce(nonce)
            .build()
            .await;
        ids.push(*tx.id());
        let costs: HashMap<IbcPrefixed, u128> = [(asset, 10u128)].into_iter().collect();
        mempool.insert(tx, 0, &balances, costs).await.unwrap();
    }
    // chain balance for ALICE drops to 5: every pending tx becomes unaffordable
    fixture
        .state_mut()
        .put_account_balance(&*ALICE_ADDRESS_BYTES, &nria(), 5)
        .unwrap();
    mempool
        .run_maintenance(fixture.state(), false, HashMap::new(), 6)
        .await;
    let mut lost = 0;
    for (i, id) in ids.iter().enumerate() {
        let s = match mempool.transaction_status(id).await {
            Some(TransactionStatus::Pending) => "pending".to_string(),
            Some(TransactionStatus::Parked) => "parked".to_string(),
            Some(TransactionStatus::Removed(r)) => format!("removed({r})"),
            None => {
                lost += 1;
                "NONE".to_string()
            }
        };
        println!("PROBE F4 nonce {i}: {s}");
    }
    println!("PROBE F4 lost = {lost}, len = {}", mempool.len().await);
}

#[tokio::test]
async fn probe_f1_failed_receive_leaves_deposit() {
    let mut fixture = Fixture::default_initialized().await;
    let bridge_address = astria_address(&[99; 20]);
    let rollup_id = RollupId::from_unhashed_bytes(b"testchainid");
    let state = fixture.state_mut();
    state.ephemeral_put_ibc_context(TransactionId::new([0; 32]), 0);
    state.put_bridge_account_rollup_id(&bridge_address, rollup_id).unwrap();
    state.put_bridge_account_ibc_asset(&bridge_address, nria()).unwrap();
    let chan_b = ChannelId("bchan".into());
    state.put_ibc_channel_balance(&chan_b, &nria(), 99).unwrap(); // one short of amount
    let packet_data = FungibleTokenPacketData {
        denom: format!("transfer/achan/{}", nria()),
        sender: String::new(),
        amount: "100".to_string(),
        receiver: bridge_address.to_string(),
        memo: serde_json::to_string(&Ics20TransferDeposit {
            rollup_deposit_address: "rollupaddress".to_string(),
        })
        .unwrap(),
    };
    let packet = Packet {
        sequence: Sequence(0),
        port_on_a: PortId("transfer".into()),
        chan_on_a: ChannelId("achan".into()),
        port_on_b: PortId("transfer".into()),
        chan_on_b: chan_b.clone(),
        data: serde_json::to_vec(&packet_data).unwrap(),
        timeout_height_on_b: TimeoutHeight::Never,
        timeout_timestamp_on_b: ibc_types::timestamp::Timestamp { time: None },
    };
    let msg = MsgRecvPacket {
        packet,
        proof_commitment_on_a: ibc_types::core::commitment::MerkleProof { proofs: vec![] },
        proof_height_on_a: ibc_types::core::client::Height::new(0, 1).unwrap(),
        signer: String::new(),
    };
    let res = Ics20Transfer::recv_packet_execute(&mut *state, &msg).await;
    println!("PROBE F1 recv_packet_execute result ok = {}", res.is_ok());
    println!(
        "PROBE F1 bridge balance = {}, escrow = {}, cached deposits = {:?}",
        state.get_account_balance(&bridge_address, &nria()).await.unwrap(),
        state.get_ibc_channel_balance(&chan_b, &nria()).await.unwrap(),
        state.get_cached_block_deposits()
    );
}

// ---------------- F3: price application order differs across ABCI paths -------------
mod f3 {
    use std::collections::HashMap;

    use astria_core::{
        generated::price_feed::abci::v2::OracleVoteExtension as RawOracleVoteExtension,
        oracles::price_feed::types::v2::{CurrencyPair, CurrencyPairId, Price},
        protocol::{
            price_feed::v1::{CurrencyPairInfo, ExtendedCommitInfoWithCurrencyPairMapping},
            transaction::v1::action::CurrencyPairsChange,
        },
        sequencerblock::v1::DataItem,
    };
    use prost::{bytes::Bytes, Message as _};
    use tendermint::{
        abci::{
            self,
            types::{BlockSignatureInfo, CommitInfo, ExtendedCommitInfo, ExtendedVoteInfo, Validator, VoteInfo},
        },
        block::{BlockIdFlag, Round},
        Hash, Time,
    };
    use tendermint_proto::types::CanonicalVoteExtension;

    use crate::{
        proposal::commitment::generate_rollup_datas_commitment,
        test_utils::*,
    };

    async fn new_fixture() -> (Fixture, tendermint::block::Height) {
        let mut fixture = Fixture::uninitialized(None).await;
        fixture
            .chain_initializer()
            .with_genesis_validators(vec![(ALICE.verification_key(), 100)])
            .init()
            .await;
        let height = fixture.run_until_blackburn_applied().await;
        (fixture, height)
    }

    #[tokio::test]
    async fn probe_f3_paths_diverge() {
        let (mut a, height) = new_fixture().await;
        let (mut b, height_b) = new_fixture().await;
        assert_eq!(height, height_b);

        let pair: CurrencyPair = "ETH/USD".parse().unwrap();
        let id = CurrencyPairId::new(1);
        let removal = CurrencyPairsChange::Removal(std::iter::once(pair.clone()).collect());
        let tx = a
            .checked_tx_builder()
            .with_signer(SUDO.clone())
            .with_nonce(0)
            .with_action(removal)
            .build()
            .await;

        let mut prices = std::collections::BTreeMap::new();
        let _ = prices.insert(id.get(), Price::new(10000i128).get().to_be_bytes().to_vec().into());
        let extension_bytes = RawOracleVoteExtension { prices }.encode_to_vec();
        let round = 0u16;
        let msg = CanonicalVoteExtension {
            extension: extension_bytes.clone(),
            height: i64::try_from(height.value()).unwrap() - 1,
            round: i64::from(round),
            chain_id: "test".to_string(),
        }
        .encode_length_delimited_to_vec();
        let validator = Validator { address: *ALICE_ADDRESS_BYTES, power: 100u32.into() };
        let vote = ExtendedVoteInfo {
            validator: validator.clone(),
            sig_info: BlockSignatureInfo::Flag(BlockIdFlag::Commit),
            vote_extension: extension_bytes.into(),
            extension_signature: Some(ALICE.sign(&msg).to_bytes().to_vec().try_into().unwrap()),
        };
        let eci = ExtendedCommitInfoWithCurrencyPairMapping {
            extended_commit_info: ExtendedCommitInfo { round: round.into(), votes: vec![vote] },
            id_to_currency_pair: indexmap::indexmap! { id => CurrencyPairInfo { currency_pair: pair.clone(), decimals: 8 } },
        };
        let encoded_eci = DataItem::ExtendedCommitInfo(eci.into_raw().encode_to_vec().into()).encode();
        let commitments = generate_rollup_datas_commitment::<true>(std::slice::from_ref(&tx), HashMap::new());
        let txs: Vec<Bytes> = commitments
            .into_iter()
            .chain(std::iter::once(encoded_eci))
            .chain(std::iter::once(tx.encoded_bytes().clone()))
            .collect();

        let time = Time::from_unix_timestamp(1_744_036_800, 0).unwrap();
        let hash = Hash::Sha256([7u8; 32]);
        let proposer_address: tendermint::account::Id = ALICE_ADDRESS_BYTES.to_vec().try_into().unwrap();
        let finalize = abci::request::FinalizeBlock {
            hash,
            height,
            time,
            next_validators_hash: Hash::default(),
            proposer_address,
            txs: txs.clone(),
            decided_last_commit: CommitInfo { votes: vec![], round: Round::default() },
            misbehavior: vec![],
        };
        let process = abci::request::ProcessProposal {
            hash,
            height,
            time,
            next_validators_hash: Hash::default(),
            proposer_address,
            txs,
            proposed_last_commit: Some(CommitInfo {
                round: round.into(),
                votes: vec![VoteInfo { validator, sig_info: BlockSignatureInfo::Flag(BlockIdFlag::Commit) }],
            }),
            misbehavior: vec![],
        };

        // node B: sync path, FinalizeBlock only
        let rb = b.app.finalize_block(finalize.clone(), b.storage()).await;
        println!("PROBE F3 finalize-only: {:?}", rb.as_ref().map(|r| hex::encode(r.app_hash.as_bytes())).map_err(|e| format!("{e:#}")));
        // node A: validator path, ProcessProposal then FinalizeBlock
        let pa = a.app.process_proposal(process, a.storage()).await;
        println!("PROBE F3 process_proposal: {:?}", pa.as_ref().map_err(|e| format!("{e:#}")));
        let ra = a.app.finalize_block(finalize, a.storage()).await;
        println!("PROBE F3 process+finalize: {:?}", ra.as_ref().map(|r| hex::encode(r.app_hash.as_bytes())).map_err(|e| format!("{e:#}")));
    }
}

// ---------------- F8: stale checked tx accepted by proposer, rejected by validator -------------
mod f8 {
    use std::collections::HashMap;

    use astria_core::protocol::transaction::v1::action::FeeAssetChange;
    use tendermint::{
        abci::{self, types::{CommitInfo, ExtendedCommitInfo}},
        block::Round,
        Hash, Time,
    };

    use crate::test_utils::*;

    async fn run_block(f: &mut Fixture, txs: &[std::sync::Arc<crate::checked_transaction::CheckedTransaction>], seed: u8) {
        let height = f.block_height().await.increment();
        let finalize = abci::request::FinalizeBlock {
            hash: Hash::Sha256([seed; 32]),
            height,
            time: Time::from_unix_timestamp(1_744_036_900 + i64::from(seed), 0).unwrap(),
            next_validators_hash: Hash::default(),
            proposer_address: [0u8; 20].to_vec().try_into().unwrap(),
            txs: transactions_with_extended_commit_info_and_commitments(height, txs, None),
            decided_last_commit: CommitInfo { votes: vec![], round: Round::default() },
            misbehavior: vec![],
        };
        let r = f.app.finalize_block(finalize, f.storage()).await.unwrap();
        assert!(r.tx_results.iter().all(|t| t.code.is_ok()), "{:?}", r.tx_results);
        f.app.commit(f.storage()).await.unwrap();
    }

    #[tokio::test]
    async fn probe_f8_honest_proposal_rejected() {
        let mut p = Fixture::default_initialized().await;
        let mut v = Fixture::default_initialized().await;
        // block: add fee asset `other` (nonce 0)
        let add_other = p.checked_tx_builder().with_signer(SUDO.clone()).with_nonce(0)
            .with_action(FeeAssetChange::Addition("other".parse().unwrap())).build().await;
        run_block(&mut p, std::slice::from_ref(&add_other), 1).await;
        run_block(&mut v, std::slice::from_ref(&add_other), 1).await;
        // T: remove nria, nonce 3, constructed NOW on P (fee assets = {nria, other}) -- as CheckTx would
        let t = p.checked_tx_builder().with_signer(SUDO.clone()).with_nonce(3)
            .with_action(FeeAssetChange::Removal(nria().into())).build().await;
        // block: remove `other` (nonce 1) -> fee assets = {nria}
        let rm_other = p.checked_tx_builder().with_signer(SUDO.clone()).with_nonce(1)
            .with_action(FeeAssetChange::Removal("other".parse().unwrap())).build().await;
        run_block(&mut p, std::slice::from_ref(&rm_other), 2).await;
        run_block(&mut v, std::slice::from_ref(&rm_other), 2).await;
        // E: add `third`, nonce 2, constructed on P now
        let e = p.checked_tx_builder().with_signer(SUDO.clone()).with_nonce(2)
            .with_action(FeeAssetChange::Addition("third".parse().unwrap())).build().await;
        let mempool = p.mempool();
        mempool.insert(e, 2, &dummy_balances(0, 0), dummy_tx_costs(0, 0, 0)).await.unwrap();
        mempool.insert(t, 2, &dummy_balances(0, 0), dummy_tx_costs(0, 0, 0)).await.unwrap();

        let height = p.block_height().await.increment();
        let time = Time::from_unix_timestamp(1_744_037_000, 0).unwrap();
        let proposer_address: tendermint::account::Id = [88u8; 20].to_vec().try_into().unwrap();
        let prepare = abci::request::PrepareProposal {
            height, time, next_validators_hash: Hash::default(), proposer_address,
            txs: vec![], max_tx_bytes: 1_000_000,
            local_last_commit: Some(ExtendedCommitInfo { votes: vec![], round: 0u16.into() }),
            misbehavior: vec![],
        };
        let prepared = p.app.prepare_proposal(prepare, p.storage()).await.unwrap();
        println!("PROBE F8 prepared {} items (3 injected + user txs)", prepared.txs.len());
        let process = abci::request::ProcessProposal {
            hash: Hash::Sha256([9u8; 32]), height, time, next_validators_hash: Hash::default(),
            proposer_address, txs: prepared.txs.clone(),
            proposed_last_commit: Some(CommitInfo { votes: vec![], round: 0u16.into() }),
            misbehavior: vec![],
        };
        let own = p.app.process_proposal(process.clone(), p.storage()).await;
        println!("PROBE F8 proposer's own process_proposal: {:?}", own.as_ref().map_err(|e| format!("{e:#}")));
        let other = v.app.process_proposal(process, v.storage()).await;
        println!("PROBE F8 validator process_proposal: {:?}", other.as_ref().map_err(|e| format!("{e:#}")));
    }
}

// ---------------- F1 e2e and F2: IBC with an installed channel -------------
mod ibc_probe {
    use astria_core::{
        primitive::v1::{asset::Denom, RollupId, TransactionId},
        protocol::{memos::v1::Ics20TransferDeposit, transaction::v1::action::Ics20Withdrawal},
    };
    use ibc_types::core::{
        channel::{
            self, channel::{Order, State as ChanState}, msgs::{MsgRecvPacket, MsgTimeout}, packet::Sequence,
            ChannelEnd, ChannelId, Packet, PortId, TimeoutHeight,
        },
        client::{ClientId, Height},
        connection::{self, ConnectionEnd, ConnectionId, State as ConnState},
    };
    use penumbra_ibc::component::{
        app_handler::{AppHandlerCheck as _, AppHandlerExecute as _},
        ChannelStateWriteExt as _, ConnectionStateWriteExt as _,
    };
    use penumbra_proto::core::component::ibc::v1::FungibleTokenPacketData;

    use crate::{
        accounts::StateReadExt as _,
        bridge::{StateReadExt as _, StateWriteExt as _},
        ibc::{ics20_transfer::Ics20Transfer, StateReadExt as _, StateWriteExt as _},
        test_utils::*,
    };

    async fn install_channel(fixture: &mut Fixture) {
        let client_id = ClientId::default();
        fixture.init_active_ibc_client(&client_id, dummy_ibc_client_state(3)).await;
        let conn_id = ConnectionId::new(0);
        let conn = ConnectionEnd {
            state: ConnState::Open,
            client_id: client_id.clone(),
            counterparty: connection::Counterparty {
                client_id: client_id.clone(),
                connection_id: Some(ConnectionId::new(0)),
                prefix: Default::default(),
            },
            versions: vec![],
            delay_period: std::time::Duration::from_secs(0),
        };
        fixture.state_mut().put_new_connection(&conn_id, conn).await.unwrap();
        let chan = ChannelEnd {
            state: ChanState::Open,
            ordering: Order::Unordered,
            remote: channel::Counterparty::new(PortId::transfer(), Some(ChannelId::new(7))),
            connection_hops: vec![conn_id],
            version: "ics20-1".to_string().into(),
            upgrade_sequence: 0,
        };
        fixture.state_mut().put_channel(&ChannelId::new(0), &PortId::transfer(), chan);
        fixture.state_mut().put_send_sequence(&ChannelId::new(0), &PortId::transfer(), 1);
    }

    #[tokio::test]
    async fn probe_f1_e2e_error_ack_but_deposit_cached() {
        let mut fixture = Fixture::default_initialized().await;
        install_channel(&mut fixture).await;
        let bridge_address = astria_address(&[99; 20]);
        let rollup_id = RollupId::from_unhashed_bytes(b"testchainid");
        let state = fixture.state_mut();
        state.ephemeral_put_ibc_context(TransactionId::new([0; 32]), 0);
        state.put_bridge_account_rollup_id(&bridge_address, rollup_id).unwrap();
        state.put_bridge_account_ibc_asset(&bridge_address, nria()).unwrap();
        let chan_b = ChannelId::new(0);
        state.put_ibc_channel_balance(&chan_b, &nria(), 99).unwrap();
        let packet_data = FungibleTokenPacketData {
            denom: format!("transfer/channel-7/{}", nria()),
            sender: String::new(),
            amount: "100".to_string(),
            receiver: bridge_address.to_string(),
            memo: serde_json::to_string(&Ics20TransferDeposit { rollup_deposit_address: "rollupaddress".to_string() }).unwrap(),
        };
        let packet = Packet {
            sequence: Sequence(0),
            port_on_a: PortId::transfer(),
            chan_on_a: ChannelId::new(7),
            port_on_b: PortId::transfer(),
            chan_on_b: chan_b.clone(),
            data: serde_json::to_vec(&packet_data).unwrap(),
            timeout_height_on_b: TimeoutHeight::Never,
            timeout_timestamp_on_b: ibc_types::timestamp::Timestamp { time: None },
        };
        let msg = MsgRecvPacket {
            packet,
            proof_commitment_on_a: ibc_types::core::commitment::MerkleProof { proofs: vec![] },
            proof_height_on_a: Height::new(0, 1).unwrap(),
            signer: String::new(),
        };
        let res = Ics20Transfer::recv_packet_execute(&mut *state, &msg).await;
        println!("PROBE F1e2e recv_packet_execute = {:?}", res.as_ref().map_err(|e| format!("{e:#}")));
        println!(
            "PROBE F1e2e bridge balance = {}, escrow = {}, cached deposits = {}",
            state.get_account_balance(&bridge_address, &nria()).await.unwrap(),
            state.get_ibc_channel_balance(&chan_b, &nria()).await.unwrap(),
            state.get_cached_block_deposits().values().map(Vec::len).sum::<usize>()
        );
    }

    async fn withdraw(fixture: &mut Fixture, denom: Denom, label: &str) {
        let action = Ics20Withdrawal {
            amount: 1000,
            denom,
            destination_chain_address: "test-chain".to_string(),
            return_address: *ALICE_ADDRESS,
            timeout_height: Height::new(2, 100).unwrap(),
            timeout_time: 200_000_000_000,
            source_channel: ChannelId::new(0),
            fee_asset: nria().into(),
            memo: String::new(),
            bridge_address: None,
            use_compat_address: false,
        };
        let before = fixture.get_nria_balance(&*ALICE_ADDRESS_BYTES).await;
        let nonce = fixture.state().get_account_nonce(&*ALICE_ADDRESS_BYTES).await.unwrap();
        let tx = fixture.checked_tx_builder().with_signer(ALICE.clone()).with_nonce(nonce).with_action(action).build().await;
        let r = fixture.app.execute_transaction(tx).await;
        let after = fixture.get_nria_balance(&*ALICE_ADDRESS_BYTES).await;
        let escrow = fixture.state().get_ibc_channel_balance(&ChannelId::new(0), &nria()).await.unwrap();
        println!("PROBE F2 [{label}] exec ok = {:?}, alice delta = -{}, escrow(channel-0, nria) = {escrow}", r.as_ref().map(|_| ()).map_err(|e| format!("{e:#}")), before - after);
    }

    #[tokio::test]
    async fn probe_f2_ibc_prefixed_denom_not_escrowed() {
        let mut fixture = Fixture::default_initialized().await;
        install_channel(&mut fixture).await;
        withdraw(&mut fixture, nria().into(), "trace-prefixed nria").await;
        withdraw(&mut fixture, Denom::IbcPrefixed(nria().to_ibc_prefixed()), "ibc-prefixed nria").await;
        // now time the second packet out: refund path
        let packet_data = FungibleTokenPacketData {
            denom: Denom::IbcPrefixed(nria().to_ibc_prefixed()).to_string(),
            sender: ALICE_ADDRESS.to_string(),
            amount: "1000".to_string(),
            receiver: "test-chain".to_string(),
            memo: String::new(),
        };
        let packet = Packet {
            sequence: Sequence(2),
            port_on_a: PortId::transfer(),
            chan_on_a: ChannelId::new(0),
            port_on_b: PortId::transfer(),
            chan_on_b: ChannelId::new(7),
            data: serde_json::to_vec(&packet_data).unwrap(),
            timeout_height_on_b: TimeoutHeight::Never,
            timeout_timestamp_on_b: ibc_types::timestamp::Timestamp { time: None },
        };
        let msg = MsgTimeout {
            packet,
            next_seq_recv_on_b: Sequence(0),
            proof_unreceived_on_b: ibc_types::core::commitment::MerkleProof { proofs: vec![] },
            proof_height_on_b: Height::new(0, 1).unwrap(),
            signer: String::new(),
        };
        let before = fixture.get_nria_balance(&*ALICE_ADDRESS_BYTES).await;
        let chk = Ics20Transfer::timeout_packet_check(fixture.state(), &msg).await;
        let exe = Ics20Transfer::timeout_packet_execute(fixture.state_mut(), &msg).await;
        let after = fixture.get_nria_balance(&*ALICE_ADDRESS_BYTES).await;
        let escrow = fixture.state().get_ibc_channel_balance(&ChannelId::new(0), &nria()).await.unwrap();
        println!("PROBE F2 timeout of ibc-prefixed packet: check = {:?}, exec = {:?}, alice delta = +{}, escrow = {escrow} (1000 nria of the first, still outstanding, packet were escrowed)", chk.map_err(|e| format!("{e:#}")), exe.map_err(|e| format!("{e:#}")), after - before);
    }
}
