#![allow(clippy::all, unused_imports)]
use std::collections::HashMap;

use astria_core::{
    primitive::v1::asset::IbcPrefixed,
    protocol::transaction::v1::action::ValidatorUpdate,
};

use crate::{
    authority::StateReadExt as _,
    mempool::{Mempool, TransactionStatus},
    test_utils::*,
};

#[tokio::test]
async fn probe_f9_same_tx_in_pending_and_parked() {
    let fixture = Fixture::default_initialized().await;
    let mempool = Mempool::new(fixture.metrics(), 100, 100);
    let asset: IbcPrefixed = nria().to_ibc_prefixed();
    let tx = fixture.checked_tx_builder().with_signer(ALICE.clone()).with_nonce(0).build().await;
    let id = *tx.id();
    let costs: HashMap<IbcPrefixed, u128> = [(asset, 10u128)].into_iter().collect();
    let poor: HashMap<IbcPrefixed, u128> = [(asset, 5u128)].into_iter().collect();
    let rich: HashMap<IbcPrefixed, u128> = [(asset, 50u128)].into_iter().collect();
    let r1 = mempool.insert(tx.clone(), 0, &poor, costs.clone()).await;
    let r2 = mempool.insert(tx.clone(), 0, &rich, costs.clone()).await;
    println!("PROBE F9 first insert = {r1:?}, second insert of the SAME tx = {r2:?}");
    println!("PROBE F9 len() = {}, builder_queue len = {}", mempool.len().await, mempool.builder_queue().await.len());
    // now remove it as invalid from pending: what is left?
    mempool.remove_tx_invalid(tx.clone(), crate::mempool::RemovalReason::Expired).await;
    let status = match mempool.transaction_status(&id).await {
        Some(TransactionStatus::Pending) => "pending".to_string(),
        Some(TransactionStatus::Parked) => "parked".to_string(),
        Some(TransactionStatus::Removed(r)) => format!("removed({r})"),
        None => "NONE".to_string(),
    };
    println!("PROBE F9 after remove_tx_invalid: status = {status}, len() = {}", mempool.len().await);
}

#[tokio::test]
async fn probe_f7_pre_aspen_two_removals_empty_the_set() {
    // Aspen at height 10 so that genesis..9 is pre-Aspen
    let upgrades = astria_core::upgrades::test_utils::UpgradesBuilder::new().set_aspen(Some(10)).set_blackburn(Some(12)).build();
    let mut fixture = Fixture::uninitialized(Some(upgrades)).await;
    fixture
        .chain_initializer()
        .with_genesis_validators(vec![(ALICE.verification_key(), 10), (BOB.verification_key(), 10)])
        .init()
        .await;
    let mut nonce = 0;
    for key in [ALICE.verification_key(), BOB.verification_key()] {
        let tx = fixture
            .checked_tx_builder()
            .with_signer(SUDO.clone())
            .with_nonce(nonce)
            .with_action(ValidatorUpdate { power: 0, verification_key: key, name: "x".parse().unwrap() })
            .build()
            .await;
        let r = fixture.app.execute_transaction(tx).await;
        println!("PROBE F7pre remove #{nonce}: {:?}", r.map(|_| ()).map_err(|e| format!("{e:#}")));
        nonce += 1;
    }
    let resp = fixture.app.end_block(1, &*SUDO_ADDRESS_BYTES).await.unwrap();
    println!("PROBE F7pre updates returned = {}, stored set size after end_block = {}",
        resp.validator_updates.len(),
        fixture.state().pre_aspen_get_validator_set().await.unwrap().len());
}
