#![allow(clippy::all)]
use prost::Message as _;
use sequencer_client::{
    tendermint::{self, block::Commit, validator},
    tendermint_proto,
    tendermint_rpc::endpoint::validators,
};

use super::block_verifier::ensure_commit_has_quorum;

fn setup(powers: &[u32], signers: &[usize]) -> (validators::Response, Commit, tendermint::chain::Id) {
    let chain_id: tendermint::chain::Id = "test-chain".try_into().unwrap();
    let height = 7u32;
    let keys: Vec<_> = (0..powers.len())
        .map(|i| astria_core::crypto::SigningKey::from([i as u8 + 1; 32]))
        .collect();
    let infos: Vec<_> = keys
        .iter()
        .zip(powers)
        .map(|(k, p)| {
            let pub_key = tendermint::public_key::PublicKey::from_raw_ed25519(k.verification_key().as_ref()).unwrap();
            validator::Info {
                address: tendermint::account::Id::from(pub_key),
                pub_key,
                power: (*p).into(),
                proposer_priority: 0.into(),
                name: None,
            }
        })
        .collect();
    let timestamp = tendermint::Time::unix_epoch();
    let canonical_vote = tendermint::vote::CanonicalVote {
        vote_type: tendermint::vote::Type::Precommit,
        height: height.into(),
        round: 0u16.into(),
        block_id: None,
        timestamp: Some(timestamp),
        chain_id: chain_id.clone(),
    };
    let message = tendermint_proto::types::CanonicalVote::from(canonical_vote).encode_length_delimited_to_vec();
    let signatures = signers
        .iter()
        .map(|&i| tendermint::block::CommitSig::BlockIdFlagCommit {
            validator_address: infos[i].address,
            timestamp,
            signature: Some(keys[i].sign(&message).to_bytes().as_ref().try_into().unwrap()),
        })
        .collect();
    let commit = Commit { height: height.into(), round: 0u16.into(), signatures, ..Default::default() };
    (validators::Response::new(height.into(), infos, powers.len() as i32), commit, chain_id)
}

#[test]
fn probe_f6_quorum() {
    for (powers, signers, note) in [
        (vec![1u32, 1, 1, 1, 1], vec![0usize, 1, 2], "3 of 5 = 60%"),
        (vec![1, 1, 1, 1, 1], vec![0, 1, 2, 3], "4 of 5 = 80%"),
        (vec![34, 33, 34], vec![0, 1], "67 of 101 = 66.3%"),
        (vec![34, 33, 33], vec![0, 0], "validator 0 (34%) listed twice"),
        (vec![34, 33, 33], vec![0], "validator 0 (34%) once"),
    ] {
        let (vals, commit, chain_id) = setup(&powers, &signers);
        let r = ensure_commit_has_quorum(&commit, &vals, &chain_id);
        println!("PROBE F6 {note}: {:?}", r.map_err(|e| e.to_string()));
    }
}
