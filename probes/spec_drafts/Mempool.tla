----------------------------- MODULE Mempool -----------------------------
(* DRAFT (round 0): app-side mempool for ONE account, one asset; transcribed from
   mempool/mod.rs + transactions_container.rs. Expiry and recost omitted in this draft. *)
EXTENDS Naturals, Sequences, FiniteSets, TLC

CONSTANTS MaxNonce, MaxBal, ParkedAcctLimit, ParkedTotalLimit, MaxOps, GuardDuplicates, ReportMaintenanceDrops

Nonces == 0..MaxNonce
Tx == [n : Nonces, v : {1, 2}, c : {1, 2}]       \* nonce, variant (distinct ids for one nonce), cost
Id(t) == <<t.n, t.v>>
NoTx == [n |-> 99, v |-> 0, c |-> 0]

VARIABLES pending, parked,   \* Nonces -> Tx \cup {NoTx}
          contained,         \* set of ids
          removed,           \* set of ids reported in the removal cache
          accepted,          \* ghost: ids that were ever accepted by insert
          ops, shown   \* shown: last chain nonce shown to the mempool (monotone)
vars == <<pending, parked, contained, removed, accepted, ops, shown>>

Dom(q) == {n \in Nonces : q[n] # NoTx}
Ids(q) == {Id(q[n]) : n \in Dom(q)}
Min(S) == CHOOSE x \in S : \A y \in S : x <= y
Max(S) == CHOOSE x \in S : \A y \in S : x >= y
RECURSIVE SumCost(_, _)
SumCost(q, S) == IF S = {} THEN 0 ELSE LET n == Min(S) IN q[n].c + SumCost(q, S \ {n})
Monus(a, b) == IF a >= b THEN a - b ELSE 0

Init == /\ pending = [n \in Nonces |-> NoTx] /\ parked = [n \in Nonces |-> NoTx]
        /\ contained = {} /\ removed = {} /\ accepted = {} /\ ops = 0 /\ shown = 0

\* ---- TransactionsForAccount::add for the pending container: returns an error tag or "ok"
PendingAdd(q, t, cn, bal) ==
  IF t.n < cn THEN "NonceTooLow"
  ELSE IF q[t.n] # NoTx THEN (IF Id(q[t.n]) = Id(t) THEN "AlreadyPresent" ELSE "NonceTaken")
  ELSE IF ~(IF t.n = 0 THEN cn = 0 ELSE (q[t.n - 1] # NoTx \/ t.n = cn)) THEN "NonceGap"
  ELSE IF SumCost(q, Dom(q)) + t.c > bal THEN "AccountBalanceTooLow"
  ELSE "ok"

ParkedAdd(q, t, cn) ==
  IF Cardinality(Dom(q)) >= ParkedTotalLimit THEN "ParkedSizeLimit"
  ELSE IF Cardinality(Dom(q)) >= ParkedAcctLimit THEN "AccountSizeLimit"
  ELSE IF t.n < cn THEN "NonceTooLow"
  ELSE IF q[t.n] # NoTx THEN (IF Id(q[t.n]) = Id(t) THEN "AlreadyPresent" ELSE "NonceTaken")
  ELSE "ok"

\* ParkedTransactionsForAccount::find_promotables: contiguous run at the FRONT of parked starting at target
RECURSIVE PromoRun(_, _, _)
PromoRun(q, target, avail) ==
  IF Dom(q) = {} THEN {}
  ELSE LET f == Min(Dom(q)) IN
       IF f # target \/ q[f].c > avail THEN {}
       ELSE {f} \cup PromoRun([q EXCEPT ![f] = NoTx], target + 1, avail - q[f].c)

\* promote the run one by one through PendingAdd; failures drop the tx (reported iff `report`)
RECURSIVE Promote(_, _, _, _, _, _, _)
Promote(pq, run, cn, bal, cont, rem, report) ==
  IF run = {} THEN [pq |-> pq, cont |-> cont, rem |-> rem]
  ELSE LET n == Min(run)
           t == parked[n]
           r == PendingAdd(pq, t, cn, bal)
       IN IF r = "ok"
            THEN Promote([pq EXCEPT ![n] = t], run \ {n}, cn, bal, cont, rem, report)
            ELSE Promote(pq, run \ {n}, cn, bal, cont \ {Id(t)}, IF report THEN rem \cup {Id(t)} ELSE rem, report)

Insert(t, cn, bal) ==
  /\ ops < MaxOps /\ ops' = ops + 1
  /\ (GuardDuplicates => Id(t) \notin contained)   \* the CheckTx service checks transaction_status first
  /\ cn >= shown /\ shown' = cn
  /\ LET r == PendingAdd(pending, t, cn, bal) IN
     IF r = "ok" THEN
        LET p1 == [pending EXCEPT ![t.n] = t]
            run == PromoRun(parked, t.n + 1, Monus(bal, SumCost(p1, Dom(p1))))
            res == Promote(p1, run, cn, bal, contained, removed, TRUE)
        IN /\ pending' = res.pq
           /\ parked' = [n \in Nonces |-> IF n \in run THEN NoTx ELSE parked[n]]
           /\ contained' = res.cont \cup {Id(t)}
           /\ removed' = res.rem
           /\ accepted' = accepted \cup {Id(t)}
     ELSE IF r \in {"NonceGap", "AccountBalanceTooLow"} /\ ParkedAdd(parked, t, cn) = "ok" THEN
           /\ parked' = [parked EXCEPT ![t.n] = t]
           /\ contained' = contained \cup {Id(t)}
           /\ accepted' = accepted \cup {Id(t)}
           /\ UNCHANGED <<pending, removed>>
     ELSE UNCHANGED <<pending, parked, contained, removed, accepted>>

RemoveInvalid(t) ==
  /\ ops < MaxOps /\ ops' = ops + 1 /\ UNCHANGED shown
  /\ IF pending[t.n] # NoTx THEN
        LET gone == {Id(pending[n]) : n \in {m \in Dom(pending) : m >= t.n}} \cup Ids(parked) IN
        /\ pending' = [n \in Nonces |-> IF n >= t.n THEN NoTx ELSE pending[n]]
        /\ parked' = [n \in Nonces |-> NoTx]
        /\ contained' = contained \ gone
        /\ removed' = removed \cup gone \cup {Id(t)}
     ELSE IF parked[t.n] # NoTx THEN
        LET gone == {Id(parked[n]) : n \in {m \in Dom(parked) : m >= t.n}} IN
        /\ parked' = [n \in Nonces |-> IF n >= t.n THEN NoTx ELSE parked[n]]
        /\ contained' = contained \ gone
        /\ removed' = removed \cup gone \cup {Id(t)}
        /\ UNCHANGED pending
     ELSE UNCHANGED <<pending, parked, contained, removed>>
  /\ UNCHANGED accepted

\* PendingTransactionsForAccount::find_demotables: keep the affordable prefix
RECURSIVE KeepPrefix(_, _, _)
KeepPrefix(q, S, avail) ==
  IF S = {} THEN {}
  ELSE LET n == Min(S) IN IF q[n].c > avail THEN {} ELSE {n} \cup KeepPrefix(q, S \ {n}, avail - q[n].c)

\* demote one by one through ParkedAdd; failures drop the tx WITHOUT reporting (as coded in run_maintenance)
RECURSIVE Demote(_, _, _, _, _, _)
Demote(kq, dem, cn, cont, src, rem) ==
  IF dem = {} THEN [kq |-> kq, cont |-> cont, rem |-> rem]
  ELSE LET n == Min(dem)
           t == src[n]
       IN IF ParkedAdd(kq, t, cn) = "ok"
            THEN Demote([kq EXCEPT ![n] = t], dem \ {n}, cn, cont, src, rem)
            ELSE Demote(kq, dem \ {n}, cn, cont \ {Id(t)}, src, IF ReportMaintenanceDrops THEN rem \cup {Id(t)} ELSE rem)

Maintain(cn, bal) ==
  /\ ops < MaxOps /\ ops' = ops + 1 /\ cn >= shown /\ shown' = cn
  /\ LET staleP == {n \in Dom(pending) : n < cn}
         staleK == {n \in Dom(parked) : n < cn}
         staleIds == {Id(pending[n]) : n \in staleP} \cup {Id(parked[n]) : n \in staleK}
         p1 == [n \in Nonces |-> IF n \in staleP THEN NoTx ELSE pending[n]]
         k1 == [n \in Nonces |-> IF n \in staleK THEN NoTx ELSE parked[n]]
         keep == KeepPrefix(p1, Dom(p1), bal)
         dem == Dom(p1) \ keep
     IN IF dem = {} THEN
          LET target == IF Dom(p1) = {} THEN cn ELSE Max(Dom(p1)) + 1
              run == PromoRun(k1, target, Monus(bal, SumCost(p1, Dom(p1))))
              \* Promote reads `parked`; the run only contains non-stale nonces so parked[n] = k1[n]
              res == Promote(p1, run, cn, bal, contained \ staleIds, removed \cup staleIds, ReportMaintenanceDrops)
          IN /\ pending' = res.pq
             /\ parked' = [n \in Nonces |-> IF n \in run THEN NoTx ELSE k1[n]]
             /\ contained' = res.cont
             /\ removed' = res.rem
        ELSE
          LET p2 == [n \in Nonces |-> IF n \in dem THEN NoTx ELSE p1[n]]
              res == Demote(k1, dem, cn, contained \ staleIds, p1, removed \cup staleIds)
          IN /\ pending' = p2
             /\ parked' = res.kq
             /\ contained' = res.cont
             /\ removed' = res.rem
  /\ UNCHANGED accepted

Next == \/ \E t \in Tx, cn \in Nonces, bal \in 0..MaxBal : Insert(t, cn, bal)
        \/ \E t \in Tx : RemoveInvalid(t)
        \/ \E cn \in Nonces, bal \in 0..MaxBal : Maintain(cn, bal)
Spec == Init /\ [][Next]_vars

\* ---- properties ----
ExactlyOnePlace ==
  /\ \A i \in accepted : (i \in Ids(pending)) \/ (i \in Ids(parked)) \/ (i \in removed)
  /\ Ids(pending) \cap Ids(parked) = {}
  /\ contained = Ids(pending) \cup Ids(parked)
Live == {n \in Dom(pending) : n >= shown}
PendingConsecutive == Live # {} => Live = shown..Max(Live)
=============================================================================
