CONSTANTS MaxHeight = 3  MaxCrashes = 2  MaxTx = 4
INIT Init
NEXT Next
INVARIANTS NoGap FileReadable StartedImpliesConfirmed
CHECK_DEADLOCK FALSE
