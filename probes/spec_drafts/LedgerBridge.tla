--------------------------- MODULE LedgerBridge ---------------------------
(* DRAFT (round 0): bridge + ICS20 fragment of the ledger, single sequencer-origin asset,
   fees and nonces omitted. Each action is one single-action transaction (atomic). *)
EXTENDS Naturals, Sequences, FiniteSets, TLC

CONSTANTS Addr, MaxAmt, U, Events, MaxSteps,
          ModelF1,   \* TRUE: receive_tokens as coded (deposit cached before escrow debit, no rollback)
          ModelF2    \* TRUE: ibc-spelled denom is not escrowed on withdrawal (but is refunded from escrow)

Amt == 1..MaxAmt
None == "none"

VARIABLES bal,        \* Addr -> 0..U
          escrow,     \* 0..U   (channel-0, native asset)
          bridge,     \* Addr -> None | [wd, sudo, dis]
          seen,       \* set of <<bridge, event>>
          deposits,   \* bag as sequence of [b, amt] published so far
          lastStep,   \* ghost: description of the last step for action properties
          sent, returned, burned, steps
vars == <<bal, escrow, bridge, seen, deposits, lastStep, sent, returned, burned, steps>>

NoBridge == [is |-> FALSE, wd |-> None, sudo |-> None, dis |-> FALSE]
IsBridge(a) == bridge[a].is
Total == LET RECURSIVE S(_) 
             S(X) == IF X = {} THEN 0 ELSE LET a == CHOOSE x \in X : TRUE IN bal[a] + S(X \ {a})
         IN S(Addr)

Init == /\ bal = [a \in Addr |-> 1] /\ escrow = 0
        /\ bridge = [a \in Addr |-> NoBridge] /\ seen = {} /\ deposits = <<>>
        /\ lastStep = [k |-> "init"] /\ sent = 0 /\ returned = 0 /\ burned = 0 /\ steps = 0

Step(k, signer, debited, credited, dep, ok) ==
  lastStep' = [k |-> k, signer |-> signer, debited |-> debited, credited |-> credited, dep |-> dep, ok |-> ok]

Fail(k, s) == /\ Step(k, s, {}, {}, <<>>, FALSE)
              /\ UNCHANGED <<bal, escrow, bridge, seen, deposits, sent, returned, burned>>

Move(from, to, amt) == [bal EXCEPT ![from] = @ - amt, ![to] = IF to = from THEN @ ELSE @ + amt]
\* note: when to = from the EXCEPT above would apply both; written explicitly:
Move2(from, to, amt) == IF from = to THEN bal ELSE [bal EXCEPT ![from] = @ - amt, ![to] = @ + amt]

Transfer(s, to, amt) ==
  IF IsBridge(s) \/ bal[s] < amt \/ (to # s /\ bal[to] + amt > U) THEN Fail("transfer", s)
  ELSE /\ bal' = Move2(s, to, amt) /\ Step("transfer", s, {s}, {to}, <<>>, TRUE)
       /\ UNCHANGED <<escrow, bridge, seen, deposits, sent, returned, burned>>

InitBridge(s, wd, sudo) ==
  IF IsBridge(s) THEN Fail("init", s)
  ELSE /\ bridge' = [bridge EXCEPT ![s] = [is |-> TRUE, wd |-> wd, sudo |-> sudo, dis |-> FALSE]]
       /\ Step("init", s, {}, {}, <<>>, TRUE)
       /\ UNCHANGED <<bal, escrow, seen, deposits, sent, returned, burned>>

BridgeLock(s, to, amt) ==
  IF ~IsBridge(to) \/ IsBridge(s) \/ bridge[to].dis \/ bal[s] < amt \/ bal[to] + amt > U THEN Fail("lock", s)
  ELSE /\ bal' = Move2(s, to, amt) /\ deposits' = Append(deposits, [b |-> to, amt |-> amt])
       /\ Step("lock", s, {s}, {to}, <<[b |-> to, amt |-> amt]>>, TRUE)
       /\ UNCHANGED <<escrow, bridge, seen, sent, returned, burned>>

BridgeUnlock(s, b, to, amt, e) ==
  IF ~IsBridge(b) \/ IsBridge(to) \/ bridge[b].wd # s \/ <<b, e>> \in seen \/ bal[b] < amt \/ bal[to] + amt > U
    THEN Fail("unlock", s)
  ELSE /\ bal' = Move2(b, to, amt) /\ seen' = seen \cup {<<b, e>>}
       /\ Step("unlock", s, {b}, {to}, <<>>, TRUE)
       /\ UNCHANGED <<escrow, bridge, deposits, sent, returned, burned>>

BridgeTransfer(s, b, to, amt, e) ==
  IF ~IsBridge(b) \/ ~IsBridge(to) \/ bridge[b].wd # s \/ <<b, e>> \in seen \/ bridge[to].dis
     \/ bal[b] < amt \/ (to # b /\ bal[to] + amt > U)
    THEN Fail("btransfer", s)
  ELSE /\ bal' = Move2(b, to, amt) /\ seen' = seen \cup {<<b, e>>}
       /\ deposits' = Append(deposits, [b |-> to, amt |-> amt])
       /\ Step("btransfer", s, {b}, {to}, <<[b |-> to, amt |-> amt]>>, TRUE)
       /\ UNCHANGED <<escrow, bridge, sent, returned, burned>>

BridgeSudoChange(s, b, nsudo, nwd, dis) ==
  IF ~IsBridge(b) \/ bridge[b].sudo # s THEN Fail("bsudo", s)
  ELSE /\ bridge' = [bridge EXCEPT ![b] = [is |-> TRUE, wd |-> nwd, sudo |-> nsudo, dis |-> dis]]
       /\ Step("bsudo", s, {}, {}, <<>>, TRUE)
       /\ UNCHANGED <<bal, escrow, seen, deposits, sent, returned, burned>>

\* Ics20Withdrawal; fromBridge = None or a bridge address; ibcSpelled: denom given as ibc/<hash>
Withdraw(s, amt, fromBridge, e, ibcSpelled) ==
  LET from == IF fromBridge = None THEN s ELSE fromBridge IN
  IF (fromBridge # None /\ (~IsBridge(fromBridge) \/ bridge[fromBridge].wd # s \/ <<fromBridge, e>> \in seen))
     \/ (fromBridge = None /\ IsBridge(s))
     \/ bal[from] < amt \/ escrow + amt > U
    THEN Fail("withdraw", s)
  ELSE /\ bal' = [bal EXCEPT ![from] = @ - amt]
       /\ seen' = IF fromBridge # None THEN seen \cup {<<fromBridge, e>>} ELSE seen
       /\ IF ModelF2 /\ ibcSpelled
            THEN escrow' = escrow /\ burned' = burned + amt /\ sent' = sent
            ELSE escrow' = escrow + amt /\ sent' = sent + amt /\ burned' = burned
       /\ Step("withdraw", s, {from}, {}, <<>>, TRUE)
       /\ UNCHANGED <<bridge, deposits, returned>>

\* incoming packet returning the native asset to recipient r; memoOk: memo parses as a deposit memo
Recv(r, amt, memoOk) ==
  LET isB == IsBridge(r)
      depOk == isB => (~bridge[r].dis /\ memoOk)
      dep == IF isB /\ depOk THEN <<[b |-> r, amt |-> amt]>> ELSE <<>>
      moneyOk == escrow >= amt /\ bal[r] + amt <= U
  IN IF ~depOk THEN
        /\ Step("recv", None, {}, {}, <<>>, FALSE)
        /\ UNCHANGED <<bal, escrow, bridge, seen, deposits, sent, returned, burned>>
     ELSE IF ~moneyOk THEN
        \* error acknowledgement; as coded the deposit was already cached and is not rolled back
        /\ deposits' = IF ModelF1 THEN deposits \o dep ELSE deposits
        /\ Step("recv", None, {}, {}, IF ModelF1 THEN dep ELSE <<>>, FALSE)
        /\ UNCHANGED <<bal, escrow, bridge, seen, sent, returned, burned>>
     ELSE
        /\ escrow' = escrow - amt /\ bal' = [bal EXCEPT ![r] = @ + amt] /\ returned' = returned + amt
        /\ deposits' = deposits \o dep
        /\ Step("recv", None, {}, {r}, dep, TRUE)
        /\ UNCHANGED <<bridge, seen, sent, burned>>

\* refund (timeout / failed ack) of amt to return address r; rollupMemo: packet memo is a rollup-withdrawal memo
Refund(r, amt, rollupMemo) ==
  IF escrow < amt \/ (rollupMemo /\ ~IsBridge(r)) \/ bal[r] + amt > U
    THEN /\ Step("refund", None, {}, {}, <<>>, FALSE)
         /\ UNCHANGED <<bal, escrow, bridge, seen, deposits, sent, returned, burned>>
  ELSE LET dep == IF rollupMemo THEN <<[b |-> r, amt |-> amt]>> ELSE <<>> IN
       /\ escrow' = escrow - amt /\ bal' = [bal EXCEPT ![r] = @ + amt] /\ returned' = returned + amt
       /\ deposits' = deposits \o dep
       /\ Step("refund", None, {}, {r}, dep, TRUE)
       /\ UNCHANGED <<bridge, seen, sent, burned>>

Next ==
  /\ steps < MaxSteps /\ steps' = steps + 1
  /\ \/ \E s, to \in Addr, amt \in Amt : Transfer(s, to, amt)
     \/ \E s, wd, sudo \in Addr : InitBridge(s, wd, sudo)
     \/ \E s, to \in Addr, amt \in Amt : BridgeLock(s, to, amt)
     \/ \E s, b, to \in Addr, amt \in Amt, e \in Events : BridgeUnlock(s, b, to, amt, e) \/ BridgeTransfer(s, b, to, amt, e)
     \/ \E s, b, ns, nw \in Addr, d \in BOOLEAN : BridgeSudoChange(s, b, ns, nw, d)
     \/ \E s \in Addr, amt \in Amt, fb \in Addr \cup {None}, e \in Events, sp \in BOOLEAN : Withdraw(s, amt, fb, e, sp)
     \/ \E r \in Addr, amt \in Amt, m \in BOOLEAN : Recv(r, amt, m) \/ Refund(r, amt, m)
Spec == Init /\ [][Next]_vars

\* ---- properties
Conservation == Total + escrow + burned = Cardinality(Addr)       \* genesis total = 1 per account
EscrowIdentity == escrow = sent - returned
DepositsBacked ==
  lastStep.k # "init" =>
    \A i \in 1..Len(lastStep.dep) : lastStep.ok /\ lastStep.dep[i].b \in lastStep.credited
DebitAuthorised ==
  (lastStep.k # "init" /\ lastStep.ok) =>
    \A a \in lastStep.debited : a = lastStep.signer   \* withdrawer case checked below with pre-state info
=============================================================================
