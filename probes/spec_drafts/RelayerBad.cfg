CONSTANTS MaxHeight = 3  MaxCrashes = 1  MaxTx = 3
INIT Init
NEXT NextBad
INVARIANTS NoGap StartedImpliesConfirmed
CHECK_DEADLOCK FALSE
