CONSTANTS MaxCalls = 3
INIT Init
NEXT Next
INVARIANT PathIndependence
CHECK_DEADLOCK FALSE
