CONSTANTS Addr = {a1, a2, a3}  MaxAmt = 2  U = 3  Events = {e1}  MaxSteps = 4  ModelF1 = FALSE  ModelF2 = FALSE
INIT Init
NEXT Next
INVARIANTS Conservation EscrowIdentity DepositsBacked
CHECK_DEADLOCK FALSE
