CONSTANTS MaxNonce = 3  MaxBal = 3  ParkedAcctLimit = 2  ParkedTotalLimit = 3  MaxOps = 5  GuardDuplicates = TRUE  ReportMaintenanceDrops = TRUE
INIT Init
NEXT Next
INVARIANTS ExactlyOnePlace PendingConsecutive
CHECK_DEADLOCK FALSE
