---------------------------- MODULE Relayer ----------------------------
(* DRAFT (round 0) of the relayer crash/restart model, to calibrate bounds. *)
EXTENDS Naturals, Sequences, FiniteSets, TLC

CONSTANTS MaxHeight,   \* sequencer heights 1..MaxHeight exist
          MaxCrashes,
          MaxTx        \* bound on BlobTxs ever created

Heights == 1..MaxHeight
TxId == 1..MaxTx

VARIABLES
  file,      \* durable state file: [k |-> "fresh"] | [k |-> "started", last] | [k |-> "prepared", h, last, tx]
  tmp,       \* temp file: same shape or "none" / "partial"
  cel,       \* TxId -> [st: "none"|"pending"|"confirmed"|"dropped", lo, hi]
  pc,        \* relayer control location
  started,   \* volatile: last confirmed height known to submitter
  readerNext,\* volatile: next height the reader will feed
  batch,     \* volatile: <<lo,hi>> heights accumulated for the next submission (0,0 = empty)
  cur,       \* volatile: current in-flight attempt [tx, lo, hi] or none
  pendingWrite, \* what is being written (for the two-step write)
  after,     \* continuation pc after a write completes
  crashes, nextTx

vars == <<file, tmp, cel, pc, started, readerNext, batch, cur, pendingWrite, after, crashes, nextTx>>

None == [k |-> "none"]
Fresh == [k |-> "fresh"]
Started(l) == [k |-> "started", last |-> l]
Prepared(h, l, t) == [k |-> "prepared", h |-> h, last |-> l, tx |-> t]

Init ==
  /\ file = Fresh /\ tmp = None
  /\ cel = [t \in TxId |-> [st |-> "none", lo |-> 0, hi |-> 0]]
  /\ pc = "startup" /\ started = 0 /\ readerNext = 1 /\ batch = <<0,0>> /\ cur = None
  /\ pendingWrite = None /\ after = "none" /\ crashes = 0 /\ nextTx = 1

LastOf(f) == IF f.k = "fresh" THEN 0 ELSE f.last

\* ---- durable write in two steps (tokio::fs::write(tmp) ; rename) ----
BeginWrite(st, cont) ==
  /\ pendingWrite' = st /\ after' = cont /\ pc' = "write_tmp"

WriteTmp ==
  /\ pc = "write_tmp"
  /\ tmp' = pendingWrite /\ pc' = "rename"
  /\ UNCHANGED <<file, cel, started, readerNext, batch, cur, pendingWrite, after, crashes, nextTx>>

Rename ==
  /\ pc = "rename"
  /\ file' = tmp /\ tmp' = None /\ pc' = after
  /\ UNCHANGED <<cel, started, readerNext, batch, cur, pendingWrite, after, crashes, nextTx>>

\* ---- startup: read file, rewrite it, reader position, handle prepared ----
Startup ==
  /\ pc = "startup"
  /\ readerNext' = LastOf(file) + 1
  /\ started' = LastOf(file)
  /\ batch' = <<0,0>> /\ cur' = None
  /\ BeginWrite(file, IF file.k = "prepared" THEN "confirm_old" ELSE "loop")
  /\ UNCHANGED <<file, tmp, cel, crashes, nextTx>>

ConfirmOldFound ==
  /\ pc = "confirm_old" /\ file.k = "prepared"
  /\ cel[file.tx].st = "confirmed"
  /\ started' = file.h
  /\ BeginWrite(Started(file.h), "loop")
  /\ UNCHANGED <<file, tmp, cel, readerNext, batch, cur, crashes, nextTx>>

ConfirmOldTimeout ==   \* GetTx never answered in time: tx none/pending/dropped (or even confirmed late)
  /\ pc = "confirm_old" /\ file.k = "prepared"
  /\ cel[file.tx].st # "confirmed"
  /\ started' = file.last
  /\ BeginWrite(Started(file.last), "loop")
  /\ UNCHANGED <<file, tmp, cel, readerNext, batch, cur, crashes, nextTx>>

\* ---- main loop ----
Feed ==   \* reader hands the next block to the submitter
  /\ pc = "loop" /\ readerNext <= MaxHeight
  /\ readerNext' = readerNext + 1
  /\ IF readerNext <= started
       THEN batch' = batch                                  \* skipped: already covered
       ELSE batch' = IF batch = <<0,0>> THEN <<readerNext, readerNext>> ELSE <<batch[1], readerNext>>
  /\ UNCHANGED <<file, tmp, cel, pc, started, cur, pendingWrite, after, crashes, nextTx>>

Take ==   \* take the batch and start a submission attempt: prepared is written BEFORE broadcast
  /\ pc = "loop" /\ batch # <<0,0>> /\ nextTx <= MaxTx
  /\ cur' = [k |-> "att", tx |-> nextTx, lo |-> batch[1], hi |-> batch[2]]
  /\ nextTx' = nextTx + 1
  /\ batch' = <<0,0>>
  /\ BeginWrite(Prepared(batch[2], started, nextTx), "broadcast")
  /\ UNCHANGED <<file, tmp, cel, started, readerNext, crashes>>

BroadcastOk ==
  /\ pc = "broadcast"
  /\ cel' = [cel EXCEPT ![cur.tx] = [st |-> "pending", lo |-> cur.lo, hi |-> cur.hi]]
  /\ pc' = "confirm_new"
  /\ UNCHANGED <<file, tmp, started, readerNext, batch, cur, pendingWrite, after, crashes, nextTx>>

BroadcastLost ==   \* error or timeout, tx never reached celestia: retry with a new tx for the same heights
  /\ pc = "broadcast" /\ nextTx <= MaxTx
  /\ cur' = [cur EXCEPT !.tx = nextTx]
  /\ nextTx' = nextTx + 1
  /\ BeginWrite(Prepared(cur.hi, started, nextTx), "broadcast")
  /\ UNCHANGED <<file, tmp, cel, started, readerNext, batch, crashes>>

BroadcastTimeoutButSent ==  \* timed out locally but tx is in celestia's mempool; next attempt first tries to confirm it
  /\ pc = "broadcast"
  /\ cel' = [cel EXCEPT ![cur.tx] = [st |-> "pending", lo |-> cur.lo, hi |-> cur.hi]]
  /\ pc' = "confirm_failed_attempt"
  /\ UNCHANGED <<file, tmp, started, readerNext, batch, cur, pendingWrite, after, crashes, nextTx>>

ConfirmFailedAttemptFound ==
  /\ pc = "confirm_failed_attempt" /\ cel[cur.tx].st = "confirmed"
  /\ started' = cur.hi /\ cur' = None
  /\ BeginWrite(Started(cur.hi), "loop")
  /\ UNCHANGED <<file, tmp, cel, readerNext, batch, crashes, nextTx>>

ConfirmFailedAttemptTimeout ==
  /\ pc = "confirm_failed_attempt" /\ cel[cur.tx].st # "confirmed" /\ nextTx <= MaxTx
  /\ cur' = [cur EXCEPT !.tx = nextTx]
  /\ nextTx' = nextTx + 1
  /\ BeginWrite(Prepared(cur.hi, started, nextTx), "broadcast")
  /\ UNCHANGED <<file, tmp, cel, started, readerNext, batch, crashes>>

ConfirmNew ==   \* confirm_submission loops until GetTx succeeds
  /\ pc = "confirm_new" /\ cel[cur.tx].st = "confirmed"
  /\ started' = cur.hi /\ cur' = None
  /\ BeginWrite(Started(cur.hi), "loop")
  /\ UNCHANGED <<file, tmp, cel, readerNext, batch, crashes, nextTx>>

\* ---- environment ----
Land(t) == /\ cel[t].st = "pending"
           /\ cel' = [cel EXCEPT ![t].st = "confirmed"]
           /\ UNCHANGED <<file, tmp, pc, started, readerNext, batch, cur, pendingWrite, after, crashes, nextTx>>
Drop(t) == /\ cel[t].st = "pending"
           /\ cel' = [cel EXCEPT ![t].st = "dropped"]
           /\ UNCHANGED <<file, tmp, pc, started, readerNext, batch, cur, pendingWrite, after, crashes, nextTx>>

Crash ==
  /\ crashes < MaxCrashes /\ pc # "startup"
  /\ crashes' = crashes + 1
  /\ pc' = "startup"
  /\ tmp' \in {tmp, [k |-> "partial"]}     \* temp file may be torn; the state file never is
  /\ started' = 0 /\ readerNext' = 1 /\ batch' = <<0,0>> /\ cur' = None /\ pendingWrite' = None /\ after' = "none"
  /\ UNCHANGED <<file, cel, nextTx>>

Next ==
  \/ Startup \/ WriteTmp \/ Rename \/ ConfirmOldFound \/ ConfirmOldTimeout
  \/ Feed \/ Take \/ BroadcastOk \/ BroadcastLost \/ BroadcastTimeoutButSent
  \/ ConfirmFailedAttemptFound \/ ConfirmFailedAttemptTimeout \/ ConfirmNew
  \/ \E t \in TxId : Land(t) \/ Drop(t)
  \/ Crash

Spec == Init /\ [][Next]_vars

\* ---- properties ----
ConfirmedHeights == UNION { cel[t].lo..cel[t].hi : t \in {x \in TxId : cel[x].st = "confirmed"} }
NoGap == \A h \in ConfirmedHeights : \A g \in 1..h : g \in ConfirmedHeights
FileReadable == file.k \in {"fresh", "started", "prepared"}
StartedImpliesConfirmed ==
  file.k \in {"started", "prepared"} => \A g \in 1..file.last : g \in ConfirmedHeights

ConfirmNewBad ==   \* MUTANT: does not wait for confirmation
  /\ pc = "confirm_new"
  /\ started' = cur.hi /\ cur' = None
  /\ BeginWrite(Started(cur.hi), "loop")
  /\ UNCHANGED <<file, tmp, cel, readerNext, batch, crashes, nextTx>>
NextBad == Next \/ ConfirmNewBad
=============================================================================
