------------------------------ MODULE Abci ------------------------------
(* DRAFT (round 0): one App instance driven by every legal ABCI call order for one height. *)
EXTENDS Naturals, Sequences, FiniteSets, TLC

CONSTANTS MaxCalls      \* bound on prepare/process calls before the decision

\* A block: does it carry oracle prices for pair P, and which oracle-touching txs does it contain
TxKind == {"noop", "removeP", "addP"}
Blocks == { [prices |-> pr, txs |-> t] :
              pr \in BOOLEAN,
              t \in { <<>>, <<"noop">>, <<"removeP">>, <<"removeP", "addP">> } }

\* abstract chain state: the currency-pair table entry for P (exists, nonce, priced) plus a tx counter
PairInit == [ex |-> TRUE, nonce |-> 0, priced |-> FALSE]
Err == [err |-> TRUE]
IsErr(s) == "err" \in DOMAIN s

ApplyPrices(s) == IF IsErr(s) THEN s
                  ELSE IF s.ex THEN [s EXCEPT !.nonce = @ + 1, !.priced = TRUE] ELSE Err
ApplyTx(s, k) == IF IsErr(s) THEN s
                 ELSE CASE k = "noop" -> s
                        [] k = "removeP" -> IF s.ex THEN [ex |-> FALSE, nonce |-> 0, priced |-> FALSE] ELSE Err
                        [] k = "addP" -> IF ~s.ex THEN [ex |-> TRUE, nonce |-> 0, priced |-> FALSE] ELSE Err
RECURSIVE ApplyTxs(_, _)
ApplyTxs(s, txs) == IF txs = <<>> THEN s ELSE ApplyTxs(ApplyTx(s, Head(txs)), Tail(txs))

\* what a syncing node computes: prices first (finalize_block non-skip branch), then txs
Canonical(c, b) == ApplyTxs(IF b.prices THEN ApplyPrices(c) ELSE c, b.txs)

VARIABLES committed, work, es, calls, decided, result, hist
vars == <<committed, work, es, calls, decided, result, hist>>

Unset == [k |-> "unset"]
Init == /\ committed = PairInit /\ work = PairInit /\ es = Unset /\ calls = 0
        /\ decided = <<>> /\ result = [k |-> "none"] /\ hist = <<>>

Reset == committed   \* update_state_for_new_round

\* prepare_proposal: always resets, executes txs (honest proposer only builds blocks whose txs succeed), no prices
Prepare(b) ==
  /\ decided = <<>> /\ calls < MaxCalls
  /\ ~IsErr(ApplyTxs(Reset, b.txs))
  /\ work' = ApplyTxs(Reset, b.txs)
  /\ es' = [k |-> "prepared", prop |-> b]
  /\ calls' = calls + 1 /\ hist' = Append(hist, <<"prepare", b>>)
  /\ UNCHANGED <<committed, decided, result>>

Process(b) ==
  /\ decided = <<>> /\ calls < MaxCalls
  /\ calls' = calls + 1 /\ hist' = Append(hist, <<"process", b>>)
  /\ LET skip == es.k \in {"prepared", "preparedValid"} /\ es.prop = b IN
     IF skip
       THEN /\ work' = work
            /\ es' = [k |-> "executed", hash |-> b]
       ELSE LET w == ApplyTxs(Reset, b.txs) IN
            IF IsErr(w)
              THEN /\ work' = Reset /\ es' = Unset          \* rejected proposal, dirty-but-reset state
              ELSE /\ work' = w /\ es' = [k |-> "executed", hash |-> b]
  /\ UNCHANGED <<committed, decided, result>>

Finalize(b) ==
  /\ decided = <<>>
  /\ ~IsErr(Canonical(committed, b))      \* consensus only decides blocks honest validators accepted
  /\ ~IsErr(ApplyTxs(committed, b.txs))
  /\ decided' = <<b>> /\ hist' = Append(hist, <<"finalize", b>>)
  /\ LET skip == es.k = "executed" /\ es.hash = b
         w == IF skip
                THEN (IF b.prices THEN ApplyPrices(work) ELSE work)                    \* prices AFTER txs
                ELSE ApplyTxs(IF b.prices THEN ApplyPrices(Reset) ELSE Reset, b.txs)   \* prices BEFORE txs
     IN /\ work' = w
        /\ result' = [k |-> "done", state |-> w, canon |-> Canonical(committed, b)]
  /\ es' = [k |-> "executed", hash |-> b]
  /\ UNCHANGED <<committed, calls>>

Next == \E b \in Blocks : Prepare(b) \/ Process(b) \/ Finalize(b)
Spec == Init /\ [][Next]_vars

PathIndependence == result.k = "done" => result.state = result.canon
=============================================================================
