---------------------------- MODULE Conductor ----------------------------
(* DRAFT (round 0): conductor executor fed by two channels; transcribed from executor/mod.rs.
   Sequencer height h maps to rollup number h (start offsets 1:1 in this draft). *)
EXTENDS Naturals, Sequences, FiniteSets, TLC

CONSTANTS MaxH,        \* heights 1..MaxH
          Mode,        \* "SoftOnly" | "FirmOnly" | "SoftAndFirm"
          MaxInject,   \* how many arbitrary (stale/dup/ahead) deliveries the environment may inject
          Spread       \* celestia_search_height_max_look_ahead (soft may lead firm by < Spread)

H == 1..MaxH
VARIABLES soft, firm,        \* committed rollup numbers (= last executed heights)
          softQ, firmQ,      \* channel contents (sequences of heights)
          softNext, firmNext,\* what the (well-behaved) readers would send next
          pending,           \* set of heights executed soft and awaiting firm
          rpc,               \* log of RPCs: <<"exec", h, parent>> / <<"commit", soft, firm>>
          dead,              \* executor exited with an error
          injected
vars == <<soft, firm, softQ, firmQ, softNext, firmNext, pending, rpc, dead, injected>>

WithSoft == Mode \in {"SoftOnly", "SoftAndFirm"}
WithFirm == Mode \in {"FirmOnly", "SoftAndFirm"}

Init == /\ soft = 0 /\ firm = 0 /\ softQ = <<>> /\ firmQ = <<>> /\ softNext = 1 /\ firmNext = 1
        /\ pending = {} /\ rpc = <<>> /\ dead = FALSE /\ injected = 0

\* ---- environment: readers deliver in order; plus a bounded number of arbitrary injections
ReaderSoft == /\ WithSoft /\ ~dead /\ softNext <= MaxH /\ Len(softQ) < 2
              /\ softQ' = Append(softQ, softNext) /\ softNext' = softNext + 1
              /\ UNCHANGED <<soft, firm, firmQ, firmNext, pending, rpc, dead, injected>>
ReaderFirm == /\ WithFirm /\ ~dead /\ firmNext <= MaxH /\ Len(firmQ) < 2
              /\ firmQ' = Append(firmQ, firmNext) /\ firmNext' = firmNext + 1
              /\ UNCHANGED <<soft, firm, softQ, softNext, pending, rpc, dead, injected>>
InjectSoft(h) == /\ WithSoft /\ ~dead /\ injected < MaxInject /\ Len(softQ) < 2
                 /\ softQ' = Append(softQ, h) /\ injected' = injected + 1
                 /\ UNCHANGED <<soft, firm, firmQ, softNext, firmNext, pending, rpc, dead>>
InjectFirm(h) == /\ WithFirm /\ ~dead /\ injected < MaxInject /\ Len(firmQ) < 2
                 /\ firmQ' = Append(firmQ, h) /\ injected' = injected + 1
                 /\ UNCHANGED <<soft, firm, softQ, softNext, firmNext, pending, rpc, dead>>

\* ---- executor (biased select: firm first; soft only if spread not too large)
SpreadTooLarge == WithFirm /\ ((soft + 1) - (firm + 1) >= Spread)

ExecFirm ==
  /\ ~dead /\ firmQ # <<>>
  /\ LET h == Head(firmQ) IN
     /\ firmQ' = Tail(firmQ)
     /\ IF h # firm + 1
          THEN /\ dead' = TRUE /\ UNCHANGED <<soft, firm, pending, rpc>>     \* ensure!(height == expected)
          ELSE IF (Mode = "FirmOnly") \/ (Mode = "SoftAndFirm" /\ firm + 1 = soft + 1)
            THEN \* execute on top of firm, Update::ToSame
                 /\ rpc' = rpc \o << <<"exec", h, firm>>, <<"commit", h, h>> >>
                 /\ soft' = h /\ firm' = h /\ UNCHANGED <<pending, dead>>
            ELSE IF h \in pending
              THEN /\ rpc' = Append(rpc, <<"commit", soft, h>>)
                   /\ firm' = h /\ pending' = pending \ {h} /\ UNCHANGED <<soft, dead>>
              ELSE \* fetch the already executed block from the rollup (it exists iff h <= soft)
                   /\ rpc' = Append(rpc, <<"commit", soft, h>>)
                   /\ firm' = h /\ UNCHANGED <<soft, pending, dead>>
  /\ UNCHANGED <<softQ, softNext, firmNext, injected>>

ExecSoft ==
  /\ ~dead /\ softQ # <<>> /\ firmQ = <<>>        \* biased: firm channel is polled first
  /\ ~SpreadTooLarge
  /\ LET h == Head(softQ) IN
     /\ softQ' = Tail(softQ)
     /\ IF h < soft + 1 THEN UNCHANGED <<soft, firm, pending, rpc, dead>>          \* stale: dropped
        ELSE IF h > soft + 1 THEN /\ dead' = TRUE /\ UNCHANGED <<soft, firm, pending, rpc>>
        ELSE /\ rpc' = rpc \o << <<"exec", h, soft>>, <<"commit", h, firm>> >>
             /\ soft' = h /\ pending' = pending \cup {h} /\ UNCHANGED <<firm, dead>>
  /\ UNCHANGED <<firmQ, softNext, firmNext, injected>>

Next == ReaderSoft \/ ReaderFirm \/ ExecFirm \/ ExecSoft
        \/ \E h \in H : InjectSoft(h) \/ InjectFirm(h)
Spec == Init /\ [][Next]_vars

\* ---- properties over the RPC log
Execs == SelectSeq(rpc, LAMBDA r : r[1] = "exec")
Commits == SelectSeq(rpc, LAMBDA r : r[1] = "commit")
OncePerHeightInOrder == \A i \in 1..Len(Execs) : Execs[i][2] = i
ParentChain == \A i \in 1..Len(Execs) : Execs[i][3] = i - 1
CommitMonotone == \A i \in 1..Len(Commits) - 1 :
                     Commits[i+1][2] >= Commits[i][2] /\ Commits[i+1][3] >= Commits[i][3]
FirmLeSoft == \A i \in 1..Len(Commits) : Commits[i][3] <= Commits[i][2]
FirmNamesExecuted == \A i \in 1..Len(Commits) : Commits[i][3] <= Len(Execs)
=============================================================================
