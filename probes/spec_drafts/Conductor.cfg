CONSTANTS MaxH = 4  Mode = "SoftOnly"  MaxInject = 2  Spread = 2
INIT Init
NEXT Next
INVARIANTS OncePerHeightInOrder ParentChain CommitMonotone FirmLeSoft FirmNamesExecuted
CHECK_DEADLOCK FALSE
